#!/opt/veriftools/pyvenv/bin/python3
import json, jsonschema, glob, sys
m=json.load(open('/verif/MANIFEST.json'))
jsonschema.validate(m,json.load(open('/root/.vp/MANIFEST.schema.json')))
es=json.load(open('/root/.vp/EVIDENCE.schema.json'))
for f in glob.glob('/verif/evidence/*.json'):
    jsonschema.validate(json.load(open(f)),es)
    print("valid",f)
print("manifest ok; claimed:",[c['property_id'] for c in m['checks']])

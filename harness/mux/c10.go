package mux

import (
	"context"
	"errors"
	"io"
	"net"
	"time"

	"github.com/hashicorp/yamux"
	"go.temporal.io/server/common/backoff"
	"go.temporal.io/server/common/log"

	"github.com/temporalio/s2s-proxy/config"
	"github.com/temporalio/s2s-proxy/transport/mux/session"
)

// ---------------------------------------------------------------------------
// C10 — mux session pool stays within its limit, heals itself, shuts down clean.
//
// The real muxProvider connect loop, multiMuxManager, ManagedMuxSession and the
// real receiving / establishing connProviders run against a fake listener /
// dialer and a stubbed yamux (engine redirect table): every connection attempt,
// yamux set-up and first ping has a symbolic outcome; sessions die on request.

type c10Conn struct {
	net.Conn
	id     int
	closed int
}

func (c *c10Conn) Close() error         { c.closed++; return nil }
func (c *c10Conn) RemoteAddr() net.Addr { return c10Addr{} }
func (c *c10Conn) LocalAddr() net.Addr  { return c10Addr{} }

type c10Addr struct{}

func (c10Addr) Network() string { return "tcp" }
func (c10Addr) String() string  { return "10.0.0.1:7" }

type c10Sess struct {
	s         *yamux.Session
	conn      *c10Conn
	closed    bool
	closeCh   chan struct{}
	pings     int
	firstPing int // 0 ok, 1 write-timeout, 2 EOF, 3 other, 4 ok but the remote hangs up right after, 5/6 shutdown arrives while the ping is outstanding and the ping then fails / succeeds
}

type c10Env struct {
	conns          []*c10Conn
	sessions       map[*yamux.Session]*c10Sess
	sessList       []*c10Sess
	accepts        chan int // outcome tokens for connection attempts: 0 ok, 1 error
	dialTimeout    chan struct{}
	lisClosed      chan struct{}
	lisClosedFlag  bool
	sessionOutcome int // next yamux set-up: 0 ok, 1 error
	pingOutcome    int
	attempts       int
	shutdown       func() // cancels the provider's context (the harness' shutdown action)
	cancelled      bool
}

var c10 *c10Env

type c10Listener struct{ net.Listener }

func (c10Listener) Accept() (net.Conn, error) {
	c10.attempts++
	select {
	case out := <-c10.accepts:
		c10.attempts--
		if out == 1 {
			return nil, errors.New("accept failed")
		}
		if out == 3 {
			return nil, &c10TimeoutErr{}
		}
		if out == 2 {
			c10.shutdown() // shutdown arrives exactly while the connection is being established
		}
		c := &c10Conn{id: len(c10.conns)}
		c10.conns = append(c10.conns, c)
		return c, nil
	case <-c10.lisClosed:
		c10.attempts--
		return nil, errors.New("use of closed network connection")
	}
}
func (c10Listener) Close() error {
	if !c10.lisClosedFlag {
		c10.lisClosedFlag = true
		close(c10.lisClosed)
	}
	return nil
}
func (c10Listener) Addr() net.Addr { return c10Addr{} }

func verifStub_netListen(network, address string) (net.Listener, error) { return c10Listener{}, nil }

// c10TimeoutErr: what package net reports for an i/o timeout (a peer that silently drops packets): its
// timeout error answers errors.Is(err, context.DeadlineExceeded) with true although nothing was cancelled
type c10TimeoutErr struct{}

func (*c10TimeoutErr) Error() string         { return "i/o timeout" }
func (*c10TimeoutErr) Timeout() bool         { return true }
func (*c10TimeoutErr) Temporary() bool       { return true }
func (*c10TimeoutErr) Is(target error) bool { return target == context.DeadlineExceeded }

func verifStub_DialTimeout(network, address string, timeout time.Duration) (net.Conn, error) {
	c10.attempts++
	var out int
	select {
	case out = <-c10.accepts:
	case <-c10.dialTimeout: // the 5s dial timeout fires (modelled at shutdown only)
		c10.attempts--
		return nil, errors.New("dial timeout")
	}
	c10.attempts--
	if out == 1 {
		return nil, errors.New("dial failed")
	}
	if out == 3 {
		return nil, &c10TimeoutErr{}
	}
	if out == 2 {
		c10.shutdown() // shutdown arrives exactly while the dial is succeeding
	}
	c := &c10Conn{id: len(c10.conns)}
	c10.conns = append(c10.conns, c)
	return c, nil
}

// one attempt, no sleeping: the retry/backoff policy is Temporal's and is not under test
func verifStub_ThrottleRetry(operation backoff.Operation, policy backoff.RetryPolicy, isRetryable backoff.IsRetryable) error {
	err := operation()
	if err != nil && isRetryable != nil {
		isRetryable(err)
	}
	return err
}

func c10NewSession(conn net.Conn) (*yamux.Session, error) {
	if c10.sessionOutcome != 0 {
		return nil, errors.New("yamux: bad config")
	}
	s := &yamux.Session{}
	cs := &c10Sess{s: s, closeCh: make(chan struct{}), firstPing: c10.pingOutcome}
	if cc, ok := conn.(*c10Conn); ok {
		cs.conn = cc
	}
	c10.sessions[s] = cs
	c10.sessList = append(c10.sessList, cs)
	return s, nil
}

func verifStub_yamuxServer(conn io.ReadWriteCloser, cfg *yamux.Config) (*yamux.Session, error) {
	return c10NewSession(conn.(net.Conn))
}
func verifStub_yamuxClient(conn io.ReadWriteCloser, cfg *yamux.Config) (*yamux.Session, error) {
	return c10NewSession(conn.(net.Conn))
}

func verifStub_sessPing(s *yamux.Session) (time.Duration, error) {
	cs := c10.sessions[s]
	cs.pings++
	if cs.closed {
		return 0, yamux.ErrSessionShutdown
	}
	if cs.pings == 1 && cs.firstPing == 4 {
		// the peer answers the first ping and hangs up at once
		cs.closed = true
		close(cs.closeCh)
		return time.Millisecond, nil
	}
	if cs.pings == 1 && (cs.firstPing == 5 || cs.firstPing == 6) {
		// shutdown arrives exactly while the first ping is outstanding
		verifAction("shutdown-during-first-ping")
		verifReach("shutdown-during-first-ping")
		c10.shutdown()
		if cs.firstPing == 5 {
			return 0, io.EOF
		}
		return time.Millisecond, nil
	}
	if cs.pings == 1 {
		switch cs.firstPing {
		case 1:
			return 0, yamux.ErrConnectionWriteTimeout
		case 2:
			return 0, io.EOF
		case 3:
			return 0, errors.New("ping: other")
		}
	}
	return time.Millisecond, nil
}
func verifStub_sessClose(s *yamux.Session) error {
	cs := c10.sessions[s]
	if !cs.closed {
		cs.closed = true
		close(cs.closeCh)
	}
	return nil
}
func verifStub_sessCloseChan(s *yamux.Session) <-chan struct{} { return c10.sessions[s].closeCh }
func verifStub_sessIsClosed(s *yamux.Session) bool             { return c10.sessions[s].closed }
func verifStub_sessRemoteAddr(s *yamux.Session) net.Addr       { return c10Addr{} }

// remote side kills a session
func (e *c10Env) remoteClose(cs *c10Sess) {
	if !cs.closed {
		cs.closed = true
		close(cs.closeCh)
	}
}

func (e *c10Env) liveSessions() int {
	n := 0
	for _, cs := range e.sessList {
		if !cs.closed {
			n++
		}
	}
	return n
}

func verifHarness_C10_pool() {
	verifConfig("preempt", verifParam("preempt", 0))
	n := verifChoose("pool-size", verifParam("maxpool", 2)) + 1
	role := verifChoose("role", 2) // 0 receiver, 1 establisher
	maxAttempts := verifParam("attempts", 4)
	c10 = &c10Env{sessions: map[*yamux.Session]*c10Sess{}, accepts: make(chan int, 1), lisClosed: make(chan struct{}), dialTimeout: make(chan struct{})}
	ctx, cancel := context.WithCancel(context.Background())
	var listUpdates int
	var lastList []string
	builder := func(cb AddNewMux, lifetime context.Context) (MuxProvider, error) {
		if role == 0 {
			return NewMuxReceiverProvider(lifetime, "verif", cb, int64(n), config.TCPTLSInfo{ConnectionString: "x:1"}, []string{"l"}, log.NewNoopLogger())
		}
		return NewMuxEstablisherProvider(lifetime, "verif", cb, int64(n), config.TCPTLSInfo{ConnectionString: "x:1"}, []string{"l"}, log.NewNoopLogger())
	}
	mgrI, err := NewCustomMultiMuxManager(ctx, "verif", builder, nil,
		[]OnConnectionListUpdate{func(m map[string]session.ManagedMuxSession) {
			listUpdates++
			// the listener is handed the table under the manager's lock at every change: at no instant
			// may it hold more sessions than the configured count (a slot is recycled only after its dead
			// session has left the table)
			verifAssert(len(m) <= n, "registered-sessions-never-exceed-the-configured-count")
			lastList = nil
			for k := range m {
				lastList = append(lastList, k)
			}
		}}, log.NewNoopLogger())
	verifAssert(err == nil, "manager-built")
	if err != nil {
		return
	}
	mgr := mgrI.(*multiMuxManager)
	mgr.muxProvider.Start()
	verifQuiesce()

	c10.shutdown = func() {
		if !c10.cancelled {
			c10.cancelled = true
			cancel()
			close(c10.dialTimeout)
		}
	}
	for step := 0; step < maxAttempts && !c10.cancelled; step++ {
		a := verifChoose("event", 5)
		switch a {
		case 0: // a connection attempt completes with a symbolic outcome chain
			if c10.attempts == 0 {
				verifAssume(false) // pool is full: nobody is waiting for a connection
			}
			out := verifChoose("conn-outcome", 4) // 0 established, 1 fails, 2 established while shutdown arrives, 3 fails with a timeout-typed error
			c10.sessionOutcome, c10.pingOutcome = 0, 0
			if out == 0 {
				c10.sessionOutcome = verifChoose("yamux-setup", 2)
				if c10.sessionOutcome == 0 {
					c10.pingOutcome = verifChoose("first-ping", 7)
				}
			}
			switch {
			case out == 2:
				verifAction("connection-established-while-shutdown-arrives")
				verifReach("shutdown-during-connect")
			case out == 3:
				verifAction("connect-times-out")
				verifReach("connect-timeout-error")
			case out != 0:
				verifAction("connect-fails")
			case c10.sessionOutcome != 0:
				verifAction("yamux-setup-fails")
			case c10.pingOutcome == 4:
				verifAction("session-established-then-remote-hangs-up")
			case c10.pingOutcome >= 5:
				verifAction("attempt-interrupted-by-shutdown")
			case c10.pingOutcome != 0:
				verifAction("first-ping-fails")
			default:
				verifAction("session-established")
			}
			c10.accepts <- out
		case 1: // the remote end kills a live session
			var live []*c10Sess
			for _, cs := range c10.sessList {
				if !cs.closed {
					live = append(live, cs)
				}
			}
			if len(live) == 0 {
				verifAssume(false)
			}
			verifAction("remote-closes-session")
			c10.remoteClose(live[verifChoose("which", len(live))])
		case 4: // the remote end kills a live session while its replacement connection is already waiting
			var live []*c10Sess
			for _, cs := range c10.sessList {
				if !cs.closed {
					live = append(live, cs)
				}
			}
			if len(live) == 0 || c10.attempts != 0 || len(c10.accepts) != 0 {
				verifAssume(false) // only with a full pool: nobody may consume the waiting connection early
			}
			verifAction("remote-closes-session-with-replacement-waiting")
			verifReach("replacement-connection-waiting")
			c10.sessionOutcome, c10.pingOutcome = 0, 0
			c10.accepts <- 0
			c10.remoteClose(live[verifChoose("which", len(live))])
		case 2: // a session is closed locally
			conns := mgr.GetMuxConnections()
			if len(conns) == 0 {
				verifAssume(false)
			}
			verifAction("local-close")
			for _, s := range conns {
				s.Close()
				break
			}
		case 3:
			verifAction("shutdown")
			c10.shutdown()
		}
		verifQuiesce()
		verifQuiesce()
		reg := len(mgr.GetMuxConnections())
		verifAssert(reg <= n, "registered-sessions-never-exceed-the-configured-count")
		// C11: the session-list listener always holds the manager's current table
		cur := mgr.GetMuxConnections()
		verifAssert(len(lastList) == len(cur), "listener-saw-the-current-session-table")
		for _, k := range lastList {
			_, ok := cur[k]
			verifAssert(ok, "listener-saw-the-current-session-table")
		}
		verifAssert(c10.liveSessions() <= n, "live-sessions-never-exceed-the-configured-count")
	}
	if !c10.cancelled {
		// self-healing: while the peer is reachable the pool returns to full strength
		verifReach("healing-phase")
		for k := 0; k < n+1; k++ {
			if c10.attempts > 0 {
				c10.sessionOutcome, c10.pingOutcome = 0, 0
				c10.accepts <- 0
				verifQuiesce()
				verifQuiesce()
			}
		}
		verifAssert(len(mgr.GetMuxConnections()) == n, "pool-returns-to-full-strength-while-peer-reachable")
		verifAssert(c10.attempts == 0, "no-more-attempts-when-pool-is-full")
		c10.shutdown()
		verifQuiesce()
	}
	verifQuiesce()
	verifQuiesce()
	verifReach("shut-down")
	verifAssert(mgr.IsClosed(), "manager-reports-shutdown-complete")
	verifAssert(len(mgr.GetMuxConnections()) == 0, "no-session-registered-after-shutdown")
	for _, cs := range c10.sessList {
		verifAssert(cs.closed, "every-session-closed-after-shutdown")
	}
	for _, c := range c10.conns {
		verifAssert(c.closed > 0, "every-connection-closed-after-shutdown")
	}
	verifAssert(verifLiveThreads() == 0, "no-worker-left-running-after-shutdown")
	_ = listUpdates
}

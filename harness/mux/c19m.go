package mux

import (
	"context"
	"crypto/tls"
	"errors"
	"net"
	"time"

	"go.temporal.io/server/common/backoff"
	"go.temporal.io/server/common/log"

	"github.com/temporalio/s2s-proxy/config"
	"github.com/temporalio/s2s-proxy/encryption"
)

// C19 (wiring clause, transport/mux/receiver.go + establisher.go): a mux listener / dialer whose
// muxAddressInfo.tls section is enabled hands out only connections wrapped in TLS with the
// configuration built from *that* section and for *its* role (server config for the receiver, client
// config for the establisher); a configuration error or a nil configuration fails construction — there is
// no plaintext fallback. What the built tls.Config enforces is the subject of the ./encryption entries.

type c19mConn struct {
	net.Conn
	id int
}

func (c *c19mConn) RemoteAddr() net.Addr { return c19mAddr{} }
func (c *c19mConn) Close() error         { return nil }

type c19mAddr struct{}

func (c19mAddr) Network() string { return "tcp" }
func (c19mAddr) String() string  { return "verif:1" }

type c19mListener struct{ net.Listener }

func (c19mListener) Accept() (net.Conn, error) { return &c19mConn{id: 1}, nil }
func (c19mListener) Close() error              { return nil }
func (c19mListener) Addr() net.Addr            { return c19mAddr{} }

type c19mWrap struct {
	conn   net.Conn
	cfg    *tls.Config
	server bool
	out    *tls.Conn
}

var c19mWraps []c19mWrap
var c19mBuilt []struct {
	section encryption.TLSConfig
	server  bool
	out     *tls.Config
}
var c19mOutcome int // 0 config built, 1 error, 2 nil config without error
var c19mListenAddr, c19mDialAddr string

func c19mBuild(section encryption.TLSConfig, server bool) (*tls.Config, error) {
	switch c19mOutcome {
	case 1:
		return nil, errors.New("verif: tls configuration error")
	case 2:
		return nil, nil
	}
	out := &tls.Config{ServerName: section.CertificatePath}
	c19mBuilt = append(c19mBuilt, struct {
		section encryption.TLSConfig
		server  bool
		out     *tls.Config
	}{section, server, out})
	return out, nil
}

func verifStub_c19mServerTLS(section encryption.TLSConfig, logger log.Logger) (*tls.Config, error) {
	return c19mBuild(section, true)
}
func verifStub_c19mClientTLS(section encryption.TLSConfig) (*tls.Config, error) {
	return c19mBuild(section, false)
}
func verifStub_c19mTLSServer(conn net.Conn, cfg *tls.Config) *tls.Conn {
	out := new(tls.Conn)
	c19mWraps = append(c19mWraps, c19mWrap{conn, cfg, true, out})
	return out
}
func verifStub_c19mTLSClient(conn net.Conn, cfg *tls.Config) *tls.Conn {
	out := new(tls.Conn)
	c19mWraps = append(c19mWraps, c19mWrap{conn, cfg, false, out})
	return out
}
func verifStub_c19mListen(network, address string) (net.Listener, error) {
	c19mListenAddr = address
	return c19mListener{}, nil
}
func verifStub_c19mDial(network, address string, timeout time.Duration) (net.Conn, error) {
	c19mDialAddr = address
	return &c19mConn{id: 2}, nil
}
func verifStub_c19mRetry(operation backoff.Operation, policy backoff.RetryPolicy, isRetryable backoff.IsRetryable) error {
	return operation()
}

func verifHarness_C19_muxWiring() {
	var setting config.TCPTLSInfo
	setting.ConnectionString = "mux-addr:9"
	shape := verifChoose("tls-section", 4)
	switch shape {
	case 1:
		setting.TLSConfig = encryption.TLSConfig{CertificatePath: "mux.pem", KeyPath: "mux.key", RemoteCAPath: "mux-ca.pem"}
	case 2:
		setting.TLSConfig = encryption.TLSConfig{CertificatePath: "mux.pem", KeyPath: "mux.key", CAServerName: "peer", SkipCAVerification: true}
	case 3:
		setting.TLSConfig = encryption.TLSConfig{CAServerName: "peer", RemoteCAPath: "mux-ca.pem"}
	}
	enabled := setting.TLSConfig.IsEnabled()
	c19mOutcome = 0
	if enabled {
		c19mOutcome = verifChoose("tls-config-outcome", 3)
	}
	c19mWraps, c19mBuilt, c19mListenAddr, c19mDialAddr = nil, nil, "", ""
	server := verifChoose("role", 2) == 0
	var p MuxProvider
	var err error
	ctx := context.Background()
	if server {
		verifReach("receiver-role")
		p, err = NewMuxReceiverProvider(ctx, "verif", nil, 1, setting, []string{"a", "b", "c"}, log.NewNoopLogger())
	} else {
		verifReach("establisher-role")
		p, err = NewMuxEstablisherProvider(ctx, "verif", nil, 1, setting, []string{"a", "b", "c"}, log.NewNoopLogger())
	}
	if enabled && c19mOutcome != 0 {
		verifReach("tls-config-unusable")
		verifAssert(err != nil && p == nil, "mux-wiring:unusable-tls-configuration-fails-construction(no-plaintext-fallback)")
		return
	}
	verifAssert(err == nil && p != nil, "mux-wiring:provider-built")
	if err != nil || p == nil {
		return
	}
	mp, ok := p.(*muxProvider)
	verifAssert(ok, "mux-wiring:provider-is-the-mux-provider")
	if !ok {
		return
	}
	conn, cerr := mp.connProvider.NewConnection()
	verifAssert(cerr == nil && conn != nil, "mux-wiring:connection-handed-out")
	if cerr != nil {
		return
	}
	if server {
		verifAssert(c19mListenAddr == setting.ConnectionString, "mux-wiring:listens-on-its-own-address")
	} else {
		verifAssert(c19mDialAddr == setting.ConnectionString, "mux-wiring:dials-its-own-address")
	}
	if !enabled {
		verifReach("tls-off")
		_, raw := conn.(*c19mConn)
		verifAssert(raw && len(c19mWraps) == 0 && len(c19mBuilt) == 0, "mux-wiring:tls-off-hands-out-the-plain-connection")
		return
	}
	verifReach("tls-on")
	verifAssert(len(c19mBuilt) == 1 && c19mBuilt[0].section == setting.TLSConfig, "mux-wiring:tls-config-built-once-from-its-own-section")
	verifAssert(len(c19mBuilt) == 1 && c19mBuilt[0].server == server, "mux-wiring:tls-config-built-for-its-own-role")
	verifAssert(len(c19mWraps) == 1, "mux-wiring:connection-wrapped-exactly-once")
	if len(c19mWraps) == 1 && len(c19mBuilt) == 1 {
		wr := c19mWraps[0]
		tc, isTLS := conn.(*tls.Conn)
		verifAssert(isTLS && tc == wr.out, "mux-wiring:the-connection-handed-out-is-the-tls-wrapped-one")
		verifAssert(wr.cfg == c19mBuilt[0].out, "mux-wiring:wrapped-with-the-config-built-from-the-section")
		verifAssert(wr.server == server, "mux-wiring:tls-role-matches-the-transport-role")
		_, inner := wr.conn.(*c19mConn)
		verifAssert(inner, "mux-wiring:wraps-the-accepted-or-dialled-connection")
	}
}

package compat

import (
	"errors"

	"go.temporal.io/server/common/log"
	"google.golang.org/grpc/mem"

	"github.com/temporalio/s2s-proxy/common"
)

// ---------------------------------------------------------------------------
// C17 (control flow of the codec): transparent when the standard codec
// succeeds, errors never swallowed, repair path reports every failing stage.
// The five repair stages are stubs with symbolic outcomes (engine redirect).

type c17Delegate struct {
	outcome  int // 0 ok, 1 invalid-utf8 error, 2 other error
	calls    int
	wroteTo  any
	marshalN int
}

var errC17UTF8 = errors.New("proto: field foo contains invalid UTF-8")
var errC17Other = errors.New("proto: cannot parse invalid wire-format data")

func (d *c17Delegate) Name() string { return "proto" }
func (d *c17Delegate) Marshal(v any) (mem.BufferSlice, error) {
	d.marshalN++
	switch d.outcome {
	case 1:
		return nil, errC17UTF8
	case 2:
		return nil, errC17Other
	}
	return mem.BufferSlice{}, nil
}
func (d *c17Delegate) Unmarshal(data mem.BufferSlice, v any) error {
	d.calls++
	d.wroteTo = v
	switch d.outcome {
	case 1:
		return errC17UTF8
	case 2:
		return errC17Other
	}
	if t, ok := v.(*c17Target); ok {
		t.fromDelegate++
	}
	return nil
}

// c17Target is the message being decoded.
type c17Target struct {
	fromDelegate int
	reUnmarshal  int
	failFinal    bool
	notMarshaler bool
}

func (t *c17Target) Marshal() ([]byte, error) { return nil, nil }
func (t *c17Target) Unmarshal(b []byte) error {
	t.reUnmarshal++
	if t.failFinal {
		return errors.New("final unmarshal failed")
	}
	return nil
}

// c17Legacy is the "same" message in the legacy schema.
type c17Legacy struct {
	failUnmarshal, failMarshal bool
	unmarshals, marshals       int
	sawBytes                   []byte // the wire bytes the legacy decoder was given
}

func (m *c17Legacy) Marshal() ([]byte, error) {
	m.marshals++
	if m.failMarshal {
		return nil, errors.New("legacy marshal failed")
	}
	return []byte{1}, nil
}
func (m *c17Legacy) Unmarshal(b []byte) error {
	m.unmarshals++
	m.sawBytes = append([]byte{}, b...)
	if m.failUnmarshal {
		return errors.New("legacy unmarshal failed")
	}
	return nil
}

var c17Conv struct {
	adminFound, frontendFound bool
	legacy                    *c17Legacy
	adminCalls, frontendCalls int
	repairChanged             bool
	repairErr                 bool
	repairCalls               int
}

func verifStub_adminConvertTo122(v any) (common.Marshaler, bool) {
	c17Conv.adminCalls++
	if c17Conv.adminFound {
		return c17Conv.legacy, true
	}
	return nil, false
}
func verifStub_frontendConvertTo122(v any) (common.Marshaler, bool) {
	c17Conv.frontendCalls++
	if c17Conv.frontendFound {
		return c17Conv.legacy, true
	}
	return nil, false
}
func verifStub_RepairInvalidUTF8(v any) (bool, error) {
	c17Conv.repairCalls++
	if c17Conv.repairErr {
		return c17Conv.repairChanged, errors.New("reached maximum failure chain depth")
	}
	return c17Conv.repairChanged, nil
}

// c17Wire: the received message as gRPC hands it over — one buffer per HTTP/2 DATA frame
func c17Wire() (mem.BufferSlice, []byte) {
	switch verifChoose("receive-buffers", 3) {
	case 0:
		return mem.BufferSlice{mem.SliceBuffer([]byte{1, 2, 3, 4})}, []byte{1, 2, 3, 4}
	case 1:
		verifReach("message-in-two-buffers")
		return mem.BufferSlice{mem.SliceBuffer([]byte{1, 2}), mem.SliceBuffer([]byte{3, 4})}, []byte{1, 2, 3, 4}
	}
	return mem.BufferSlice{mem.SliceBuffer([]byte{1}), mem.SliceBuffer([]byte{2, 3}), mem.SliceBuffer([]byte{4})}, []byte{1, 2, 3, 4}
}

func verifHarness_C17_codec() {
	d := &c17Delegate{outcome: verifChoose("delegate", 3)}
	codec := &RepairUTF8Codec{delegate: d, CodecParams: &CodecParams{Logger: log.NewNoopLogger()}}
	t := &c17Target{failFinal: verifNondetBool("final-unmarshal-fails")}
	c17Conv.adminFound = verifNondetBool("admin-conversion-exists")
	c17Conv.frontendFound = verifNondetBool("frontend-conversion-exists")
	c17Conv.legacy = &c17Legacy{failUnmarshal: verifNondetBool("legacy-unmarshal-fails"), failMarshal: verifNondetBool("legacy-marshal-fails")}
	c17Conv.repairChanged = verifNondetBool("repair-changed")
	c17Conv.repairErr = verifNondetBool("repair-error")
	c17Conv.adminCalls, c17Conv.frontendCalls, c17Conv.repairCalls = 0, 0, 0

	wire, whole := c17Wire()
	err := codec.Unmarshal(wire, t)
	if c17Conv.legacy.unmarshals > 0 {
		same := len(c17Conv.legacy.sawBytes) == len(whole)
		for i := range whole {
			same = same && i < len(c17Conv.legacy.sawBytes) && c17Conv.legacy.sawBytes[i] == whole[i]
		}
		verifAssert(same, "repair-stages-work-on-the-whole-received-message(all-buffers)")
	}

	verifAssert(d.calls == 1, "standard-codec-consulted-exactly-once")
	switch d.outcome {
	case 0:
		verifReach("standard-codec-accepts")
		verifAssert(err == nil, "accepted-message-decodes-without-error")
		verifAssert(t.fromDelegate == 1 && t.reUnmarshal == 0, "accepted-message-is-exactly-what-the-standard-codec-yields")
		verifAssert(c17Conv.adminCalls+c17Conv.frontendCalls+c17Conv.repairCalls+c17Conv.legacy.unmarshals == 0, "no-repair-stage-runs-on-valid-data")
	case 2:
		verifReach("other-decode-error")
		verifAssert(err == errC17Other, "non-utf8-error-is-returned-untouched")
		verifAssert(c17Conv.adminCalls+c17Conv.frontendCalls+c17Conv.repairCalls+t.reUnmarshal == 0, "no-repair-attempt-for-other-errors")
	case 1:
		verifReach("invalid-utf8-error")
		found := c17Conv.adminFound || c17Conv.frontendFound
		allOK := found && !c17Conv.legacy.failUnmarshal && !c17Conv.repairErr && c17Conv.repairChanged && !c17Conv.legacy.failMarshal && !t.failFinal
		if allOK {
			verifReach("repair-succeeds")
			verifAssert(err == nil, "successful-repair-decodes-without-error")
			verifAssert(t.reUnmarshal == 1, "repaired-bytes-decoded-into-the-target")
		} else {
			verifReach("repair-fails")
			verifAssert(err != nil, "anything-the-repair-cannot-fix-is-reported-as-an-error")
		}
		// a half-finished repair never writes the target
		if !found || c17Conv.legacy.failUnmarshal || c17Conv.repairErr || !c17Conv.repairChanged || c17Conv.legacy.failMarshal {
			verifAssert(t.reUnmarshal == 0, "target-not-rewritten-unless-every-earlier-stage-succeeded")
		}
	}
}

func verifHarness_C17_marshal() {
	d := &c17Delegate{outcome: verifChoose("delegate", 3)}
	codec := &RepairUTF8Codec{delegate: d, CodecParams: &CodecParams{Logger: log.NewNoopLogger()}}
	_, err := codec.Marshal(&c17Target{})
	verifAssert(d.marshalN == 1, "standard-codec-consulted-exactly-once")
	switch d.outcome {
	case 0:
		verifAssert(err == nil, "marshal-transparent")
	case 1:
		verifAssert(err == errC17UTF8, "marshal-error-not-swallowed")
	case 2:
		verifAssert(err == errC17Other, "marshal-error-not-swallowed")
	}
	verifReach("marshal-checked")
}

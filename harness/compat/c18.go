package compat

import (
	"unicode/utf8"
)

// ---------------------------------------------------------------------------
// C18 — UTF-8 repair reaches every failure message in every supported RPC type.
//
// The obligations (root type, structural path to a failure message) come from
// the generated file zz_verif_c18gen.go, which is derived from the Go *types*
// of the current tree at check time, independently of the visitor under test.

const c18Bad = "bad\xffmessage"

// invalid messages with runs of 1..4 offending bytes, a truncated multi-byte rune at the end,
// and valid multi-byte runes around the damage
func c18BadShape(k int) string {
	switch k % 6 {
	case 1:
		return "\xff\xff"
	case 2:
		return "\xf0\x9f\x98" // an emoji cut after 3 of 4 bytes
	case 3:
		return "a\xff\xfe\xfdb\xc3"
	case 4:
		return "\u00e9\xfc\xfd\xfe\xff\u00e9"
	case 5:
		return "\xf0\x9f\x98x\xf0\x9f\x98"
	}
	return c18Bad
}

// c18ValidPart: the valid runes of s in order, without U+FFFD (what a faithful repair preserves)
func c18ValidPart(s string) string {
	var out []byte
	for i := 0; i < len(s); {
		r, sz := utf8.DecodeRuneInString(s[i:])
		if r != utf8.RuneError {
			out = append(out, s[i:i+sz]...)
		}
		i += sz
	}
	return string(out)
}

// c18Faithful: after is valid, keeps every valid rune of before in order, and equals before when
// before was valid
func c18Faithful(before, after string) bool {
	if utf8.ValidString(before) {
		return after == before
	}
	return utf8.ValidString(after) && c18ValidPart(after) == c18ValidPart(before) && after != c18ValidPart(before)
}

// c18Chain builds a failure chain of n links; link badPos (if in range) carries invalid UTF-8.
func c18Chain(n, badPos int) *c18Failure {
	var head *c18Failure
	for k := n - 1; k >= 0; k-- {
		f := &c18Failure{Message: "ok", Cause: head}
		if k == badPos {
			f.Message = c18BadShape(n + k)
		}
		head = f
	}
	return head
}

func c18CheckChain(head *c18Failure, n int, label string) {
	k := 0
	for f := head; f != nil; f = f.Cause {
		if k < maxFailureDepth {
			verifAssert(utf8.ValidString(f.Message), label+":failure-message-repaired")
		}
		k++
	}
	verifAssert(k == n, label+":chain-shape-unchanged")
}

// one path at a time
func verifHarness_C18_paths() {
	verifAssert(!c18Truncated && c18NumObligations > 50, "obligations-enumerated-from-the-types")
	i := verifChoose("obligation", c18NumObligations)
	var n, bad int
	if verifParam("allchains", 0) == 1 {
		// thorough: every chain length 0..12 with the invalid message at every position (or nowhere)
		n = verifChoose("length", 13)
		bad = verifChoose("bad-position", n+1) - 1
	} else {
		n, bad = c18Shape()
	}
	c18Run(i, n, bad)
}

func c18Shape() (n, bad int) {
	switch verifChoose("chain", 7) {
	case 0:
		n, bad = 0, -1 // no failure at the end of the path
	case 1:
		n, bad = 1, 0
	case 2:
		n, bad = 1, -1 // valid message: nothing to repair
	case 3:
		n, bad = 3, 2 // nested cause
	case 4:
		n, bad = 10, 9 // deepest supported
	case 5:
		n, bad = 11, 10 // beyond the supported depth
	case 6:
		n, bad = 12, 0
	}
	return n, bad
}

func c18Run(i, n, bad int) {
	chain := c18Chain(n, bad)
	// repeated fields on the path: the element alone, with empty sibling elements before / after /
	// around it, or with a second copy of the same sub-path (holding its own invalid failure) before / after
	sib := verifChoose("siblings", 6)
	verifReachIf(sib != 0, "repeated-field-with-sibling-elements")
	var chain2 *c18Failure
	if sib >= 4 {
		if !c18HasRepeated(i) {
			verifAssume(false) // no repeated field on this path: nothing to duplicate
		}
		chain2 = c18Chain(1, 0)
		verifReach("repeated-field-with-two-invalid-elements")
	}
	root := c18Build(i, chain, sib, chain2)
	verifAssert(root != nil, "obligation-materialised")
	changed, err := RepairInvalidUTF8(root)
	verifAction(c18Path(i))
	if n > maxFailureDepth {
		verifReach("beyond-supported-depth")
		verifAssert(err != nil, "chain-beyond-supported-depth-is-reported:"+c18Path(i))
		if bad >= 0 && bad < maxFailureDepth {
			verifAssert(changed, "repair-reported:"+c18Path(i))
		}
		c18CheckChain(chain, n, c18Path(i))
		if chain2 != nil {
			// a too-deep chain in one element is reported, the other elements are still repaired
			c18CheckChain(chain2, 1, c18Path(i)+"(second element, next to a too-deep chain)")
		}
		return
	}
	verifAssert(err == nil, "no-error-within-supported-depth:"+c18Path(i))
	verifAssert(changed == ((bad >= 0 && bad < n) || chain2 != nil), "changed-iff-some-message-was-invalid:"+c18Path(i))
	if chain2 != nil {
		c18CheckChain(chain2, 1, c18Path(i)+"(second element)")
	}
	if bad >= 0 {
		verifReach("invalid-message-on-path")
	}
	c18CheckChain(chain, n, c18Path(i))
}

// the chain kernel alone: every validity pattern of every chain length 0..12
func verifHarness_C18_chain() {
	n := verifChoose("length", 13)
	shape := verifChoose("bad-shape", 6)
	var head *c18Failure
	var links []*c18Failure
	var before []string
	anyBad, anyBadWithinDepth := false, false
	for k := 0; k < n; k++ {
		links = append(links, &c18Failure{Message: "ok"})
	}
	for k := n - 1; k >= 0; k-- {
		if verifNondetBool("invalid") { // forks: all 2^n patterns
			links[k].Message = c18BadShape(shape + k)
			anyBad = true
			if k < maxFailureDepth {
				anyBadWithinDepth = true
			}
		}
		links[k].Cause = head
		head = links[k]
	}
	for _, f := range links {
		before = append(before, f.Message)
	}
	changed, err := repairInvalidUTF8InFailure(head)
	verifAssert((err != nil) == (n > maxFailureDepth), "error-iff-chain-longer-than-supported-depth")
	verifAssert(changed == anyBadWithinDepth, "changed-iff-an-invalid-message-within-depth")
	for k, f := range links {
		if k < maxFailureDepth {
			verifAssert(utf8.ValidString(f.Message), "every-link-within-depth-valid-afterwards")
			verifAssert(c18Faithful(before[k], f.Message), "only-the-offending-bytes-replaced")
		}
		if k+1 < n {
			verifAssert(f.Cause == links[k+1], "chain-links-untouched")
		}
	}
	_ = anyBad
	verifReach("chain-checked")
}

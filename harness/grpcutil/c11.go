package grpcutil

import (
	"context"
	"errors"
	"net"
	"sort"

	"google.golang.org/grpc/resolver"
	"google.golang.org/grpc/resolver/manual"

	"github.com/temporalio/s2s-proxy/transport/mux/session"
)

// ---------------------------------------------------------------------------
// C11 (endpoint-set clause) — once a session-list update has been applied, the
// set of endpoints the client connection may dial equals the set of registered
// mux sessions.

type c11Sess struct {
	session.ManagedMuxSession
	id        string
	opens     int
	unhealthy bool
	failOpen  bool
}

func (s *c11Sess) Open() (net.Conn, error) {
	if s.failOpen {
		return nil, errC11Open // e.g. yamux.ErrConnectionWriteTimeout: the session stays up and registered
	}
	s.opens++
	return nil, nil
}

// a registered session may be failing its health check at the moment an update is applied
// (healthCheck flips Connected <-> Error without notifying anybody); it is still registered
func (s *c11Sess) State() *session.MuxSessionInfo {
	if s.unhealthy {
		return &session.MuxSessionInfo{State: session.Error}
	}
	return &session.MuxSessionInfo{State: session.Connected}
}
func (s *c11Sess) IsClosed() bool   { return false }
func (s *c11Sess) Describe() string { return "verif-session-" + s.id }

var errC11Open = errors.New("verif: transient stream-open failure")

var c11LastState *resolver.State
var c11Updates int

// c11AnnounceDial: the gRPC channel reacts to a resolver update by connecting to the announced
// endpoints on its own goroutines, which may run at any point after the update was pushed
var c11AnnounceDial func(ctx context.Context, addr string) (net.Conn, error)
var c11AnnounceMiss int
var c11AnnouncePending []chan struct{}

func verifStub_resolverUpdateState(r *manual.Resolver, s resolver.State) {
	c11LastState = &s
	c11Updates++
	if c11AnnounceDial != nil {
		var addrs []string
		for _, ep := range s.Endpoints {
			for _, a := range ep.Addresses {
				addrs = append(addrs, a.Addr)
			}
		}
		sort.Strings(addrs)
		done := make(chan struct{})
		c11AnnouncePending = append(c11AnnouncePending, done)
		go func() {
			for _, a := range addrs {
				if _, err := c11AnnounceDial(context.Background(), a); err != nil {
					c11AnnounceMiss++
				}
			}
			close(done)
		}()
	}
}

// verifHarness_C11_announce: calls resume when a new session appears — every endpoint the channel
// has been told about is dialable from the moment it was told (the channel connects at once, on its
// own goroutine; a refused dial parks the new endpoint in connection back-off).
func verifHarness_C11_announce() {
	verifConfig("preempt", verifParam("preempt", 1))
	nSteps := verifParam("updates", 3)
	mcc := &MultiClientConn{lifetime: context.Background(), name: "verif", resolver: manual.NewBuilderWithScheme(scheme)}
	c11AnnounceDial = mcc.getMapDialer()
	c11AnnounceMiss, c11AnnouncePending = 0, nil
	table := map[string]session.ManagedMuxSession{}
	idNames := []string{"0", "1", "2", "3", "4", "5", "6", "7"}
	nextID := 0
	for step := 0; step < nSteps; step++ {
		if len(table) == 0 || verifChoose("update", 2) == 0 {
			verifAction("add-session")
			id := idNames[nextID]
			nextID++
			table[id] = &c11Sess{id: id}
		} else {
			verifAction("remove-session")
			var ids []string
			for k := range table {
				ids = append(ids, k)
			}
			sort.Strings(ids)
			delete(table, ids[verifChoose("which", len(ids))])
			if len(table) == 0 {
				verifReach("empty-set")
			}
		}
		mcc.OnConnectionListUpdate(table)
		for _, d := range c11AnnouncePending {
			<-d
		}
		c11AnnouncePending = nil
		verifAssert(c11AnnounceMiss == 0, "every-endpoint-announced-to-the-channel-is-dialable-from-the-moment-it-is-announced")
		if c11AnnounceMiss != 0 {
			return
		}
	}
	verifReach("done")
}

func c11Keys(m map[string]func() (net.Conn, error)) []string {
	var ks []string
	for k := range m {
		ks = append(ks, k)
	}
	sort.Strings(ks)
	return ks
}

func verifHarness_C11_endpoints() {
	nSteps := verifParam("updates", 5)
	maxSess := verifParam("sessions", 3)
	ctx, cancel := context.WithCancel(context.Background())
	mcc := &MultiClientConn{lifetime: ctx, name: "verif", resolver: manual.NewBuilderWithScheme(scheme)}
	dial := mcc.getMapDialer()
	// the manager's live table and its id sequencer (ids are never reused)
	table := map[string]session.ManagedMuxSession{}
	objs := map[string]*c11Sess{}
	nextID := 0
	idNames := []string{"0", "1", "2", "3", "4", "5", "6", "7"}
	for step := 0; step < nSteps; step++ {
		a := verifChoose("update", 2)
		if a == 0 {
			if len(table) >= maxSess || nextID >= len(idNames) {
				verifAssume(false)
			}
			verifAction("add-session")
			id := idNames[nextID]
			nextID++
			s := &c11Sess{id: id, unhealthy: verifChoose("health", 2) == 1}
			if s.unhealthy {
				verifReach("unhealthy-session-registered")
			}
			table[id] = s
			objs[id] = s
		} else {
			if len(table) == 0 {
				verifAssume(false)
			}
			verifAction("remove-session")
			var ids []string
			for k := range table {
				ids = append(ids, k)
			}
			sort.Strings(ids)
			delete(table, ids[verifChoose("which", len(ids))])
			if len(table) == 0 {
				verifReach("empty-set")
			}
		}
		// multiMuxManager.notifyChange hands the listener its live table, under its lock
		mcc.OnConnectionListUpdate(table)

		// endpoints in the last resolver state == registered sessions
		verifAssert(c11LastState != nil, "resolver-state-pushed-on-every-update")
		if c11LastState == nil {
			return
		}
		var eps []string
		for _, ep := range c11LastState.Endpoints {
			verifAssert(len(ep.Addresses) == 1, "one-address-per-endpoint")
			if len(ep.Addresses) == 1 {
				eps = append(eps, ep.Addresses[0].Addr)
			}
		}
		sort.Strings(eps)
		var want []string
		for k := range table {
			want = append(want, k)
		}
		sort.Strings(want)
		verifAssert(len(eps) == len(want), "resolver-endpoints-are-exactly-the-registered-sessions")
		for i := range want {
			if i < len(eps) {
				verifAssert(eps[i] == want[i], "resolver-endpoints-are-exactly-the-registered-sessions")
			}
		}
		// a transient failure to open a stream on a live, registered session changes nothing: the
		// session is still registered, so its endpoint stays dialable
		if len(want) > 0 && verifChoose("transient-open-failure", 2) == 1 {
			s := objs[want[verifChoose("on-session", len(want))]]
			s.failOpen = true
			_, err := dial(context.Background(), s.id)
			verifAssert(err != nil, "dial-reports-the-open-failure")
			s.failOpen = false
			verifReach("transient-open-failure")
		}
		// the dialer serves exactly those keys, through the session registered under the key
		for _, id := range idNames[:nextID] {
			s := objs[id]
			before := s.opens
			_, err := dial(context.Background(), id)
			_, live := table[id]
			if live {
				verifAssert(err == nil && s.opens == before+1, "dialer-opens-a-stream-on-the-session-registered-under-the-endpoint")
			} else {
				verifReach("stale-endpoint-probed")
				verifAssert(err != nil && s.opens == before, "dialer-refuses-an-endpoint-whose-session-is-gone")
			}
		}
		verifAssert(mcc.CanMakeCalls() == (len(table) > 0), "can-make-calls-iff-a-session-is-registered")
		// no alias of the manager's live table is retained: mutate the table behind its back
		probe := &c11Sess{id: "probe"}
		table["zz"] = probe
		_, err := dial(context.Background(), "zz")
		verifAssert(err != nil, "client-connection-does-not-alias-the-managers-live-table")
		delete(table, "zz")
	}
	cancel()
	verifAssert(!mcc.CanMakeCalls(), "cannot-make-calls-after-lifetime-ended")
	verifReach("done")
}

// verifHarness_C11_stalledOpen: one session's stream open stalls (the peer stopped reading: yamux blocks
// on its backlog and ignores the dial context) while the channel is dialling it. Session-list updates
// must still be applied — the dead session's endpoint goes, a new session becomes dialable, CanMakeCalls
// answers — i.e. nothing in the dial path may sit on the session table while it waits for the session.
type c11StallSess struct {
	c11Sess
	release chan struct{}
	entered bool
}

func (s *c11StallSess) Open() (net.Conn, error) {
	s.entered = true
	<-s.release
	return nil, errC11Open
}

func verifHarness_C11_stalledOpen() {
	verifConfig("preempt", verifParam("preempt", 0))
	mcc := &MultiClientConn{lifetime: context.Background(), name: "verif", resolver: manual.NewBuilderWithScheme(scheme)}
	dial := mcc.getMapDialer()
	c11AnnounceDial = nil
	stalled := &c11StallSess{c11Sess: c11Sess{id: "0"}, release: make(chan struct{})}
	table := map[string]session.ManagedMuxSession{"0": stalled}
	mcc.OnConnectionListUpdate(table)
	dialDone := false
	go func() {
		_, _ = dial(context.Background(), "0") // the channel connects to endpoint "0"; the open stalls
		dialDone = true
	}()
	verifQuiesce()
	verifAssert(stalled.entered && !dialDone, "stalled-open:dial-is-waiting-inside-the-session")
	verifReach("dial-stalled-inside-open")
	// the session list changes while that dial is stuck
	switch verifChoose("update-during-stall", 3) {
	case 0:
		verifAction("stalled-session-removed")
		delete(table, "0")
	case 1:
		verifAction("second-session-added")
		table["1"] = &c11Sess{id: "1"}
	case 2:
		verifAction("stalled-session-replaced")
		delete(table, "0")
		table["1"] = &c11Sess{id: "1"}
	}
	mcc.OnConnectionListUpdate(table) // must not wait for the stalled open (a wait shows up as a deadlock)
	verifReach("update-applied-during-stall")
	verifAssert(mcc.CanMakeCalls() == (len(table) > 0), "stalled-open:can-make-calls-answers-during-the-stall")
	if s1, ok := table["1"].(*c11Sess); ok {
		_, err := dial(context.Background(), "1")
		verifAssert(err == nil && s1.opens == 1, "stalled-open:new-session-is-dialable-during-the-stall")
	}
	close(stalled.release)
	verifQuiesce()
	verifAssert(dialDone, "stalled-open:stalled-dial-ends-once-the-session-gives-up")
}

package interceptor

import (
	"context"

	"go.temporal.io/api/workflowservice/v1"
	"go.temporal.io/server/api/adminservice/v1"
	"go.temporal.io/server/common/api"
	"go.temporal.io/server/common/log"
	"google.golang.org/grpc"
	"google.golang.org/grpc/codes"
	"google.golang.org/grpc/metadata"

	"github.com/temporalio/s2s-proxy/common"
)

// ---------------------------------------------------------------------------
// C15 — inbound admin calls outside the allow-list never reach the local cluster.

// visitNamespace is replaced (engine redirect) by this stub: the reflective
// walk is outside the engine's reach; for C15 it finds nothing, for C16 it
// reports a symbolic list of names "found in the request".
var c16Found []string
var c16VisitErr error

func verifStub_visitNamespace(logger log.Logger, obj any, match stringMatcher) (bool, error) {
	if c16VisitErr != nil {
		return false, c16VisitErr
	}
	matched := false
	for _, n := range c16Found {
		if _, m := match(n); m {
			matched = true
		}
	}
	return matched, nil
}

func c15AdminMethods() []string {
	return verifMethodsOf((*adminservice.AdminServiceClient)(nil))
}

func c15WorkflowMethods() []string {
	return verifMethodsOf((*workflowservice.WorkflowServiceClient)(nil))
}

// c15Ctx: the incoming metadata is the caller's; besides the translation-bypass header it may carry the
// marker that proxy instances put on the calls they relay to each other (any caller can set it)
func c15Ctx(bypass bool) context.Context {
	md := metadata.Pairs("x", "y")
	if bypass {
		md.Set(common.RequestTranslationHeaderName, "false")
	}
	if verifNondetBool("intra-proxy-marker-header") {
		md.Set(common.IntraProxyHeaderKey, common.IntraProxyHeaderValue)
	}
	return metadata.NewIncomingContext(context.Background(), md)
}

func verifHarness_C15_interceptor() {
	admin := c15AdminMethods()
	wf := c15WorkflowMethods()
	verifAssert(len(admin) > 20 && len(wf) > 50, "method-sets-enumerated-from-the-service-interfaces")

	// the allow-list: an arbitrary subset of the admin method set, one Boolean per method.
	// A method that is not chosen contributes a name no method has, so the list is non-empty
	// and all its 2^N instances are explored in one formula.
	// list shapes: 0 an arbitrary subset (below), 1 empty = unrestricted, 2/3 a list that is not empty
	// but names no method (blank / padded placeholder entries): it allows nothing
	shape := verifChoose("list-shape", 4)
	emptyList := shape == 1
	var list []string
	inList := map[string]bool{}
	switch shape {
	case 0:
		for i, m := range admin {
			b := verifNondetBool("allow:" + m)
			inList[m] = b
			list = append(list, verifIteString(b, m, "~not-a-method-"+string(rune('A'+i%26))+string(rune('a'+i/26))))
		}
	case 2:
		list = []string{""}
		verifReach("allow-list-with-blank-entries")
	case 3:
		list = []string{" ", ""}
		verifReach("allow-list-with-blank-entries")
	}
	ic := NewAccessControlInterceptor(log.NewNoopLogger(), list, nil)

	// the call
	isAdmin := verifChoose("service", 2) == 0
	var method string
	if isAdmin {
		method = admin[verifChoose("admin-method", len(admin))]
	} else {
		method = wf[verifChoose("workflow-method", len(wf))]
	}
	bypass := verifNondetBool("bypass-header")
	streaming := verifChoose("kind", 2) == 1

	// an earlier call on the same interceptor must not change the decision (no per-method state):
	// none / the same-named method of the other service / the same call / a fixed admin method
	switch verifChoose("prior-call", 4) {
	case 1:
		other := admin
		if isAdmin {
			other = wf
		}
		twin := false
		for _, m := range other {
			if m == method {
				twin = true
			}
		}
		verifAssume(twin)
		verifReach("same-named-method-of-the-other-service-called-first")
		c15Call(ic, inList, emptyList, !isAdmin, method, false, bypass)
	case 2:
		c15Call(ic, inList, emptyList, isAdmin, method, streaming, bypass)
	case 3:
		c15Call(ic, inList, emptyList, true, admin[0], false, bypass)
	}
	c15Call(ic, inList, emptyList, isAdmin, method, streaming, bypass)
}

// c15Call performs one call through the interceptor and checks it against the policy.
func c15Call(ic *AccessControlInterceptor, inList map[string]bool, emptyList, isAdmin bool, method string, streaming, bypass bool) {
	full := api.WorkflowServicePrefix + method
	if isAdmin {
		full = api.AdminServicePrefix + method
	}
	ctx := c15Ctx(bypass)
	c16Found, c16VisitErr = nil, nil
	invoked := 0
	var err error
	if streaming {
		verifAction("stream")
		err = ic.StreamIntercept(nil, nil, &grpc.StreamServerInfo{FullMethod: full}, func(srv any, stream grpc.ServerStream) error {
			invoked++
			return nil
		})
	} else {
		verifAction("unary")
		_, err = ic.Intercept(ctx, nil, &grpc.UnaryServerInfo{FullMethod: full}, func(ctx context.Context, req any) (any, error) {
			invoked++
			return nil, nil
		})
	}

	// expectation
	allowed := true
	if isAdmin && !emptyList {
		allowed = inList[method]
		verifReachIf(!allowed, "admin-method-outside-list")
		verifReachIf(allowed, "admin-method-in-list")
	}
	if !isAdmin && !streaming && (method == "RegisterNamespace" || method == "DeprecateNamespace") {
		allowed = false
		verifReach("namespace-lifecycle-call")
	}
	verifAssert(verifImplies(allowed, invoked == 1), "allowed-method-is-forwarded-exactly-once")
	verifAssert(verifImplies(!allowed, invoked == 0), "refused-method-never-reaches-the-local-cluster")
	if invoked == 0 {
		verifAssert(verifStatusCode(err) == int(codes.PermissionDenied), "refused-with-permission-denied")
	} else {
		verifAssert(err == nil, "forwarded-call-returns-handler-result")
	}
}

package interceptor

import (
	"unicode/utf8"

	failure122 "github.com/temporalio/s2s-proxy/proto/1_22/api/failure/v1"
	history122 "github.com/temporalio/s2s-proxy/proto/1_22/api/history/v1"
)

// C17 (history-blob path): validateAndRepairHistoryEvents repairs every event of a batch and
// reports "changed" iff some event needed repair (a batch reported unchanged is passed on as is).

func c17Event(bad bool) *history122.HistoryEvent {
	msg := "fine"
	if bad {
		msg = "bad\xffbytes"
	}
	return &history122.HistoryEvent{Attributes: &history122.HistoryEvent_ActivityTaskFailedEventAttributes{
		ActivityTaskFailedEventAttributes: &history122.ActivityTaskFailedEventAttributes{Failure: &failure122.Failure{Message: msg}}}}
}

func verifHarness_C17_blobEvents() {
	n := verifChoose("events", 4) // 0..3 events
	var events []*history122.HistoryEvent
	anyBad := false
	for i := 0; i < n; i++ {
		bad := verifChoose("event-has-invalid-utf8", 2) == 1
		anyBad = anyBad || bad
		events = append(events, c17Event(bad))
	}
	changed, err := validateAndRepairHistoryEvents(events)
	verifAssert(err == nil, "blob-events:no-error-on-repairable-input")
	verifAssert(changed == anyBad, "blob-events:changed-reported-iff-some-event-was-repaired")
	for _, e := range events {
		verifAssert(utf8.ValidString(e.GetActivityTaskFailedEventAttributes().GetFailure().GetMessage()), "blob-events:every-event-repaired")
	}
	if anyBad && n > 1 {
		verifReach("multi-event-batch-with-invalid-utf8")
	}
}

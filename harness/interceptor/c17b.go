package interceptor

import (
	"unicode/utf8"

	failure122 "github.com/temporalio/s2s-proxy/proto/1_22/api/failure/v1"
	history122 "github.com/temporalio/s2s-proxy/proto/1_22/api/history/v1"
)

// C17 (history-blob path): validateAndRepairHistoryEvents repairs every event of a batch and
// reports "changed" iff some event needed repair (a batch reported unchanged is passed on as is).

func c17Event(bad bool) *history122.HistoryEvent { return c17EventK(bad, 0) }

// invalid runs of 1, 2, 3 and 4 bytes (a 3-byte run repairs to a string of the same length)
func c17EventK(bad bool, k int) *history122.HistoryEvent {
	msg := "fine"
	if bad {
		switch k % 4 {
		case 0:
			msg = "bad\xffbytes"
		case 1:
			msg = "\xff\xfe"
		case 2:
			msg = "\xf0\x9f\x98"
		case 3:
			msg = "x\xfc\xfd\xfe\xffy"
		}
	}
	return &history122.HistoryEvent{Attributes: &history122.HistoryEvent_ActivityTaskFailedEventAttributes{
		ActivityTaskFailedEventAttributes: &history122.ActivityTaskFailedEventAttributes{Failure: &failure122.Failure{Message: msg}}}}
}

func verifHarness_C17_blobEvents() {
	n := verifChoose("events", 4) // 0..3 events
	shape := verifChoose("bad-shape", 4)
	var events []*history122.HistoryEvent
	anyBad := false
	for i := 0; i < n; i++ {
		bad := verifChoose("event-has-invalid-utf8", 2) == 1
		anyBad = anyBad || bad
		events = append(events, c17EventK(bad, shape+i))
	}
	changed, err := validateAndRepairHistoryEvents(events)
	verifAssert(err == nil, "blob-events:no-error-on-repairable-input")
	verifAssert(changed == anyBad, "blob-events:changed-reported-iff-some-event-was-repaired")
	for _, e := range events {
		verifAssert(utf8.ValidString(e.GetActivityTaskFailedEventAttributes().GetFailure().GetMessage()), "blob-events:every-event-repaired")
	}
	if anyBad && n > 1 {
		verifReach("multi-event-batch-with-invalid-utf8")
	}
}

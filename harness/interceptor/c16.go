package interceptor

import (
	"context"
	"errors"

	"go.temporal.io/api/workflowservice/v1"
	"go.temporal.io/server/api/adminservice/v1"
	"go.temporal.io/server/common/api"
	"go.temporal.io/server/common/log"
	"google.golang.org/grpc"
	"google.golang.org/grpc/codes"
)

// ---------------------------------------------------------------------------
// C16 — requests naming a namespace outside the allow-list are refused
// (decision logic; the reflective search for names is the stubbed
// visitNamespace, see c15.go).

func c16Universe() []string { return []string{"ns-a", "ns-b", "ns-x", ""} }

func verifHarness_C16_interceptor() {
	// allow-list: arbitrary subset of {ns-a, ns-b} (ns-x and "" are never allowed); may be empty = unrestricted
	allowA := verifNondetBool("allow:ns-a")
	allowB := verifNondetBool("allow:ns-b")
	emptyList := verifChoose("list-shape", 2) == 1
	var list []string
	if !emptyList {
		list = []string{verifIteString(allowA, "ns-a", "~none-1"), verifIteString(allowB, "ns-b", "~none-2")}
	}
	ic := NewAccessControlInterceptor(log.NewNoopLogger(), nil, list)

	// names "found in the request" (after translation): 0..3 names from the universe, or a visit error
	nFound := verifChoose("found", verifParam("maxfound", 3)+1)
	c16Found = nil
	anyForbidden := false
	for k := 0; k < nFound; k++ {
		name := c16Universe()[verifChoose("name", 4)]
		c16Found = append(c16Found, name)
		ok := true
		if !emptyList {
			ok = verifOr(verifAnd(name == "ns-a", allowA), verifAnd(name == "ns-b", allowB))
		}
		anyForbidden = verifOr(anyForbidden, !ok)
	}
	c16VisitErr = nil
	visitFails := verifChoose("visit-error", 2) == 1
	if visitFails {
		c16VisitErr = errors.New("visit failed")
	}
	isAdmin := verifChoose("service", 2) == 0
	full := api.WorkflowServicePrefix + "StartWorkflowExecution"
	if isAdmin {
		full = api.AdminServicePrefix + "DescribeMutableState"
	}
	ctx := c15Ctx(verifNondetBool("bypass-header"))
	invoked := 0
	// the request object: the first name found is its top-level namespace field (as the real visit
	// would report), the others sit deeper (commands, links, blobs); or a request without such a field
	var req any
	if nFound > 0 && verifChoose("request-shape", 2) == 1 {
		verifReach("request-with-top-level-namespace")
		if isAdmin {
			req = &adminservice.DescribeMutableStateRequest{Namespace: c16Found[0]}
		} else {
			req = &workflowservice.StartWorkflowExecutionRequest{Namespace: c16Found[0]}
		}
	}
	_, err := ic.Intercept(ctx, req, &grpc.UnaryServerInfo{FullMethod: full}, func(ctx context.Context, req any) (any, error) {
		invoked++
		return nil, nil
	})
	refuse := verifOr(anyForbidden, visitFails)
	verifReachIf(verifAnd(anyForbidden, !visitFails), "forbidden-name-found")
	verifReachIf(verifAnd(!anyForbidden, !visitFails), "all-names-allowed")
	verifAssert(verifImplies(refuse, invoked == 0), "request-naming-a-foreign-namespace-never-reaches-the-local-cluster")
	verifAssert(verifImplies(!refuse, invoked == 1), "request-with-only-allowed-namespaces-is-forwarded")
	if invoked == 0 {
		verifAssert(verifStatusCode(err) == int(codes.PermissionDenied), "refused-with-permission-denied")
	}
}

package interceptor

import (
	"errors"
	"reflect"

	"github.com/keilerkonzept/visit"
	commonpb "go.temporal.io/api/common/v1"
	enumspb "go.temporal.io/api/enums/v1"
	historypb "go.temporal.io/api/history/v1"
	"go.temporal.io/server/common/log"
	"go.temporal.io/server/common/persistence/serialization"

	common122 "github.com/temporalio/s2s-proxy/proto/1_22/api/common/v1"
	enums122 "github.com/temporalio/s2s-proxy/proto/1_22/api/enums/v1"
	history122 "github.com/temporalio/s2s-proxy/proto/1_22/api/history/v1"
	serialization122 "github.com/temporalio/s2s-proxy/proto/1_22/server/common/persistence/serialization"
)

// C17 / C12 / C16 (history-blob path): control flow of translateOneDataBlob and
// tryRepairInvalidUTF8InBlob with both serializers replaced by fakes whose outcomes are symbolic.
// A blob that comes back without an error has been decoded and handed to the visitor (so that
// translation and the allow-list saw its events) and, when something matched or was repaired, has
// been re-encoded from the visited events; a blob the repair cannot fix is an error, never a
// silent pass-through of the undecoded bytes.

func c17cUTF8Err() error {
	return errors.New("proto: field temporal.api.failure.v1.Failure.message contains invalid UTF-8")
}
func c17cOtherErr() error { return errors.New("proto: cannot parse invalid wire-format data") }

// fake of the current-schema serializer
type c17cSer struct {
	serialization.Serializer
	desOutcomes []int // per call: 0 ok, 1 invalid-UTF-8 error, 2 other error
	desCalls    int
	decoded     [][]*historypb.HistoryEvent // what each successful decode returned
	evType      enumspb.EventType // type of the decoded events (a type on the namespace skip list, or unspecified)
	serFail     bool
	serCalls    int
	encodedFrom []*historypb.HistoryEvent
	out         *commonpb.DataBlob
}

func (s *c17cSer) DeserializeEvents(b *commonpb.DataBlob) ([]*historypb.HistoryEvent, error) {
	i := s.desCalls
	s.desCalls++
	o := 0
	if i < len(s.desOutcomes) {
		o = s.desOutcomes[i]
	}
	switch o {
	case 1:
		return nil, c17cUTF8Err()
	case 2:
		return nil, c17cOtherErr()
	}
	evs := []*historypb.HistoryEvent{{EventId: int64(10 + i), EventType: s.evType}}
	s.decoded = append(s.decoded, evs)
	return evs, nil
}

func (s *c17cSer) SerializeEvents(evs []*historypb.HistoryEvent) (*commonpb.DataBlob, error) {
	s.serCalls++
	if s.serFail {
		return nil, errors.New("serialize failed")
	}
	s.encodedFrom = evs
	s.out = &commonpb.DataBlob{EncodingType: enumspb.ENCODING_TYPE_PROTO3, Data: []byte("re-encoded")}
	return s.out, nil
}

// fake of the legacy-schema serializer
type c17cSer122 struct {
	serialization122.Serializer
	desFail, serFail bool
	badEvents        int // how many of the decoded legacy events hold an invalid failure message
	shape            int // which invalid byte runs they hold
	events           int
}

func (s *c17cSer122) DeserializeEvents(b *common122.DataBlob) ([]*history122.HistoryEvent, error) {
	if s.desFail {
		return nil, errors.New("legacy decode failed")
	}
	var evs []*history122.HistoryEvent
	for i := 0; i < s.events; i++ {
		evs = append(evs, c17EventK(i < s.badEvents, s.shape+i))
	}
	return evs, nil
}

func (s *c17cSer122) SerializeEvents(evs []*history122.HistoryEvent, et enums122.EncodingType) (*common122.DataBlob, error) {
	if s.serFail {
		return nil, errors.New("legacy encode failed")
	}
	return &common122.DataBlob{EncodingType: et, Data: []byte("legacy-repaired")}, nil
}

func verifHarness_C17_blobFlow() {
	ser := &c17cSer{}
	ser122 := &c17cSer122{}
	serializer = ser
	gogoSerializer = ser122

	// the visitor decides what it skips; the blob flow itself hands every decoded batch to it (the same
	// flow serves the namespace visitor, the allow-list and the search-attribute visitor)
	if verifChoose("decoded-event-type", 2) == 1 {
		ser.evType = enumspb.EVENT_TYPE_TIMER_STARTED
		verifReach("decoded-events-of-a-skip-listed-type")
	}
	first := verifChoose("decode", 3) // 0 ok, 1 invalid UTF-8, 2 other error
	ser.desOutcomes = []int{first, verifChoose("decode-after-repair", 3)}
	ser.serFail = verifChoose("encode", 2) == 1
	ser122.desFail = verifChoose("legacy-decode", 2) == 1
	ser122.serFail = verifChoose("legacy-encode", 2) == 1
	ser122.events = verifChoose("legacy-events", 3)
	ser122.badEvents = verifChoose("legacy-bad-events", 3)
	verifAssume(ser122.badEvents <= ser122.events)
	if ser122.badEvents > 0 {
		ser122.shape = verifChoose("bad-shape", 4)
	}

	visitMatched := verifChoose("visit-matched", 2) == 1
	visitFails := verifChoose("visit-error", 2) == 1
	visitCalls := 0
	var visited []*historypb.HistoryEvent
	visitor := func(l log.Logger, obj any, m stringMatcher) (bool, error) {
		visitCalls++
		visited, _ = obj.([]*historypb.HistoryEvent)
		if visitFails {
			return visitMatched, errors.New("visit failed")
		}
		return visitMatched, nil
	}
	match := func(name string) (string, bool) { return name, false }

	// empty and absent blobs pass through untouched
	if verifChoose("blob", 3) != 0 {
		var in *commonpb.DataBlob
		if verifChoose("empty-kind", 2) == 1 {
			in = &commonpb.DataBlob{EncodingType: enumspb.ENCODING_TYPE_PROTO3}
		}
		out, m, c, err := translateOneDataBlob(log.NewNoopLogger(), match, visitor, in)
		verifAssert(out == in && !m && !c && err == nil && visitCalls == 0 && ser.desCalls == 0, "blob-flow:empty-blob-passes-through-untouched")
		verifReach("empty-blob")
		return
	}

	// the serializers decide what they can decode; the blob flow itself must not judge by the label
	encs := []enumspb.EncodingType{enumspb.ENCODING_TYPE_PROTO3, enumspb.ENCODING_TYPE_JSON, enumspb.ENCODING_TYPE_UNSPECIFIED}
	in := &commonpb.DataBlob{EncodingType: encs[verifChoose("encoding", 3)], Data: []byte("wire")}
	verifReachIf(in.EncodingType != enumspb.ENCODING_TYPE_PROTO3, "non-proto3-blob")
	out, matched, changed, err := translateOneDataBlob(log.NewNoopLogger(), match, visitor, in)
	verifObserve("blob-flow", first, matched, changed, err != nil, visitCalls, ser.serCalls)

	if err == nil {
		// a blob that is passed on was decoded and its events were shown to the visitor
		verifAssert(visitCalls == 1, "blob-flow:passed-on-blob-was-visited-once")
		verifAssert(len(ser.decoded) > 0 && len(visited) > 0 && verifSameObject(visited[0], ser.decoded[len(ser.decoded)-1][0]), "blob-flow:passed-on-blob-was-decoded-and-its-events-visited")
		verifAssert(matched == visitMatched, "blob-flow:match-reported-as-the-visitor-said")
		if matched || changed {
			verifAssert(out == ser.out && out != in && len(ser.encodedFrom) > 0 && verifSameObject(ser.encodedFrom[0], visited[0]), "blob-flow:matched-or-repaired-blob-is-re-encoded-from-the-visited-events")
		} else {
			verifAssert(out == in && ser.serCalls == 0, "blob-flow:untouched-blob-is-passed-on-as-is")
		}
		if first == 1 {
			verifAssert(changed, "blob-flow:undecodable-blob-is-passed-on-only-after-a-repair")
			verifReach("repaired-blob-passed-on")
		} else {
			verifAssert(!changed, "blob-flow:valid-blob-is-not-reported-repaired")
			verifReach("valid-blob-passed-on")
		}
	} else {
		verifReach("blob-error")
	}
	if first == 2 {
		verifAssert(err != nil && visitCalls == 0, "blob-flow:decode-error-is-reported")
	}
	if first == 0 && visitFails {
		verifAssert(err != nil, "blob-flow:visit-error-is-reported")
	}
	if first == 0 && !visitFails && visitMatched && ser.serFail {
		verifAssert(err != nil, "blob-flow:encode-error-is-reported")
	}
}

// verifHarness_C17_blobAssign: one level up — visitDataBlobs, which writes the outcome of the blob flow
// back into the message. visit.Assign is a recording stub (the reflective write itself is not
// modelled); what the message holds afterwards is the assigned value if one was assigned, otherwise
// what it held before (for a repeated field: the caller's slice, which translateDataBlobs fills in place).
var c17Assigned []any

func verifStub_visitAssign(vwp visit.ValueWithParent, v reflect.Value) error {
	c17Assigned = append(c17Assigned, v.Interface())
	return nil
}

func verifHarness_C17_blobAssign() {
	ser := &c17cSer{}
	ser122 := &c17cSer122{events: 1, badEvents: 1}
	serializer = ser
	gogoSerializer = ser122
	first := verifChoose("decode", 2) // 0 decodes, 1 invalid UTF-8 (repairable)
	ser.desOutcomes = []int{first, 0}
	visitMatched := verifChoose("visit-matched", 2) == 1
	visitor := func(l log.Logger, obj any, m stringMatcher) (bool, error) { return visitMatched, nil }
	match := func(name string) (string, bool) { return name, false }
	in := &commonpb.DataBlob{EncodingType: enumspb.ENCODING_TYPE_PROTO3, Data: []byte("wire")}
	c17Assigned = nil
	var held *commonpb.DataBlob
	var matched bool
	var err error
	if verifChoose("field-kind", 2) == 0 {
		verifReach("single-blob-field")
		matched, err = visitDataBlobs(log.NewNoopLogger(), visit.ValueWithParent{Value: reflect.ValueOf(in)}, match, visitor)
		held = in
		if len(c17Assigned) == 1 {
			held, _ = c17Assigned[0].(*commonpb.DataBlob)
		}
	} else {
		verifReach("repeated-blob-field")
		sl := []*commonpb.DataBlob{in}
		matched, err = visitDataBlobs(log.NewNoopLogger(), visit.ValueWithParent{Value: reflect.ValueOf(sl)}, match, visitor)
		held = sl[0]
		if len(c17Assigned) == 1 {
			if as, ok := c17Assigned[0].([]*commonpb.DataBlob); ok && len(as) == 1 {
				held = as[0]
			} else {
				held = nil
			}
		}
	}
	verifAssert(len(c17Assigned) <= 1, "blob-assign:at-most-one-write-back")
	verifAssert(err == nil, "blob-assign:repairable-or-valid-blob-is-not-an-error")
	if err != nil {
		return
	}
	verifAssert(matched == visitMatched, "blob-assign:match-reported-as-the-visitor-said")
	if first == 1 {
		verifReach("repaired-blob-written-back")
		verifAssert(held != nil && held == ser.out && held != in, "blob-assign:message-holds-the-repaired-blob(not-the-undecodable-original)")
	} else if visitMatched {
		verifReach("translated-blob-written-back")
		verifAssert(held != nil && held == ser.out && held != in, "blob-assign:message-holds-the-translated-blob")
	} else {
		verifAssert(held == in, "blob-assign:untouched-blob-stays")
	}
}

package interceptor

import (
	"go.temporal.io/api/common/v1"
	"go.temporal.io/api/enums/v1"
	"go.temporal.io/api/history/v1"
	"go.temporal.io/api/workflowservice/v1"
)

// C12 (shortcut clause): "Performance shortcuts never change the result." The namespace visitor
// returns at once when isSkippableForNamespaceTranslation says yes, so "yes" is only right for a
// value that cannot hold a namespace name. c12Known/c12Bearing are generated at check time from the
// Go types of the tree under test (gosx genc12): every event type, and those whose attribute struct
// reaches a namespace-name string. The event type, the link shape and the batch shape are symbolic.

func c12Event(i, maxlinks int) (ev *history.HistoryEvent, bearing, linked bool) {
	et := verifNondetInt32("eventType")
	verifAssume(et >= -1 && et <= 200)
	ev = &history.HistoryEvent{EventId: int64(i + 1), EventType: enums.EventType(et)}
	// 0..maxlinks links, each of one of four kinds, in every order
	nl := verifChoose("links", 1+maxlinks)
	for j := 0; j < nl; j++ {
		switch verifChoose("link-kind", 4) {
		case 0: // a workflow-event link that names a namespace
			ev.Links = append(ev.Links, &common.Link{Variant: &common.Link_WorkflowEvent_{WorkflowEvent: &common.Link_WorkflowEvent{Namespace: "remote-ns", WorkflowId: "wf"}}})
			linked = true
		case 1: // a workflow-event link without a namespace
			ev.Links = append(ev.Links, &common.Link{Variant: &common.Link_WorkflowEvent_{WorkflowEvent: &common.Link_WorkflowEvent{WorkflowId: "wf"}}})
		case 2: // a batch-job link
			ev.Links = append(ev.Links, &common.Link{Variant: &common.Link_BatchJob_{BatchJob: &common.Link_BatchJob{JobId: "j"}}})
		case 3: // a link with no variant set
			ev.Links = append(ev.Links, &common.Link{})
		}
	}
	known := c12Known()[et]
	bearing = c12Bearing()[et]
	verifReachIf(verifAnd(known, bearing), "namespace-bearing-event-type")
	verifReachIf(verifAnd(known, verifNot(bearing)), "namespace-free-event-type")
	verifReachIf(verifNot(known), "event-type-outside-the-api")
	return ev, bearing, linked
}

func verifHarness_C12_skipShortcut() {
	switch verifChoose("shape", 3) {
	case 0: // a single event (history inside a typed message)
		ev, bearing, linked := c12Event(0, 1+verifParam("maxlinks", 2))
		skip := isSkippableForNamespaceTranslation(ev)
		verifObserve("skip-single", skip)
		verifReachIf(skip, "single-event-skipped")
		verifReachIf(verifNot(skip), "single-event-visited")
		verifAssert(verifImplies(skip, verifNot(bearing)), "skip:single-event-of-a-namespace-bearing-type-is-visited")
		verifAssert(verifImplies(skip, !linked), "skip:single-event-with-a-namespace-link-is-visited")
	case 1: // a decoded blob: a batch of events, skipped only as a whole
		n := 1 + verifChoose("batch", verifParam("maxbatch", 2))
		var evs []*history.HistoryEvent
		anyBearing, anyLinked := false, false
		for i := 0; i < n; i++ {
			ev, b, l := c12Event(i, verifParam("maxlinks", 2))
			evs = append(evs, ev)
			anyBearing = verifOr(anyBearing, b)
			anyLinked = anyLinked || l
		}
		skip := isSkippableForNamespaceTranslation(evs)
		verifObserve("skip-batch", skip)
		verifReachIf(skip, "batch-skipped")
		verifReachIf(verifNot(skip), "batch-visited")
		verifAssert(verifImplies(skip, verifNot(anyBearing)), "skip:batch-holding-a-namespace-bearing-event-is-visited")
		verifAssert(verifImplies(skip, !anyLinked), "skip:batch-holding-a-namespace-link-is-visited")
	case 2: // the unconditional shortcut
		skip := isSkippableForNamespaceTranslation(&workflowservice.ListWorkflowExecutionsResponse{})
		verifAssert(verifImplies(skip, c12ListWorkflowExecutionsResponsePaths() == 0), "skip:list-workflow-executions-response-holds-no-namespace-name")
		// anything else is never skipped
		verifAssert(!isSkippableForNamespaceTranslation(&workflowservice.StartWorkflowExecutionRequest{Namespace: "remote-ns"}), "skip:ordinary-request-is-visited")
		verifAssert(!isSkippableForNamespaceTranslation(&history.History{}), "skip:history-container-is-visited")
		verifReach("typed-shortcuts")
	}
}

package interceptor

import (
	"go.temporal.io/api/common/v1"
	"go.temporal.io/api/workflowservice/v1"
	"go.temporal.io/server/api/adminservice/v1"
	"go.temporal.io/server/common/api"
	"go.temporal.io/server/common/log"
)

// ---------------------------------------------------------------------------
// C14 (kernel) — search-attribute keys renamed consistently, values untouched,
// workflow-service traffic excluded.

func c14Mappings() []map[string]string {
	return []map[string]string{
		{},
		{"k1": "t1"},
		{"k1": "t1", "k2": "t2"},
		{"k1": "t1", "k2": "t2", "k3": "t3"},
		{"k1": "k2"},             // target collides with another possible key
		{"k1": "k2", "k2": "k3"}, // chain
		{"k1": "k1"},             // identity mapping
		{"x": "t1", "k3": "x2"},
		{"k1": "k2", "k2": "k1"}, // swap
	}
}

func c14Invert(m map[string]string) map[string]string {
	r := map[string]string{}
	for k, v := range m {
		r[v] = k
	}
	return r
}

func verifHarness_C14_indexedFields() {
	verifConfig("maporder", verifParam("maporder", 0)) // Go's map iteration order is unspecified: rotations explored in the thorough tier
	universe := []string{"k1", "k2", "k3", "x"}
	mapping := c14Mappings()[verifChoose("mapping", len(c14Mappings()))]
	var fields map[string]*common.Payload
	nilMap := verifChoose("nil-fields", 2) == 1
	payload := map[string]*common.Payload{}
	if !nilMap {
		fields = map[string]*common.Payload{}
		for i, k := range universe {
			if verifChoose("has:"+k, 2) == 1 {
				p := &common.Payload{Data: []byte{byte(i)}}
				fields[k] = p
				payload[k] = p
			}
		}
	}
	// precondition of the property: keys do not collide with mapping targets. A present key that is a
	// target collides only if it stays where it is (a key that is itself renamed away, as in a chain
	// a->b, b->c or a swap, makes room: the renaming is simultaneous)
	for from, to := range mapping {
		if _, isKey := fields[to]; isKey && from != to {
			if next, moved := mapping[to]; !moved || next == to {
				verifAssume(false)
			}
			if _, fromPresent := fields[from]; fromPresent {
				verifReach("renamed-onto-a-key-that-is-itself-renamed")
			}
		}
	}
	match := createStringMatcher(mapping)
	out, matched := translateIndexedFields(fields, match)
	if nilMap {
		verifAssert(out == nil && !matched, "nil-stays-nil")
		return
	}
	verifReach("fields-translated")
	verifAssert(len(out) == len(fields), "same-number-of-entries")
	anyMapped := false
	for k, p := range payload {
		want := k
		if to, ok := mapping[k]; ok {
			want = to
			anyMapped = true
			if to != k {
				verifReach("key-renamed")
			}
		}
		got, ok := out[want]
		verifAssert(ok, "every-key-present-under-its-counterpart")
		verifAssert(verifSameObject(got, p), "value-untouched(same-payload-object)")
	}
	verifAssert(matched == anyMapped, "reports-whether-anything-matched")
	// the input map itself is not modified
	verifAssert(len(fields) == len(payload), "input-map-untouched")

	// request and response directions are mutual inverses
	tr := NewSearchAttributeTranslator(log.NewNoopLogger(), map[string]map[string]string{"ns": mapping}, map[string]map[string]string{"ns": c14Invert(mapping)}).(*saTranslator)
	there, _ := translateIndexedFields(fields, tr.getNamespaceReqMatcher(""))
	collide := false // the translated key set must again not collide with targets of the inverse
	for from, to := range c14Invert(mapping) {
		if _, isKey := there[to]; isKey && from != to {
			if next, moved := c14Invert(mapping)[to]; !moved || next == to {
				collide = true
			}
		}
	}
	if !collide {
		back, _ := translateIndexedFields(there, tr.getNamespaceRespMatcher(""))
		verifAssert(len(back) == len(fields), "round-trip-same-size")
		for k, p := range payload {
			got, ok := back[k]
			verifAssert(ok && verifSameObject(got, p), "round-trip-restores-keys-and-values")
		}
	}
}

func verifHarness_C14_methodFilter() {
	tr := NewSearchAttributeTranslator(log.NewNoopLogger(), nil, nil)
	wf := verifMethodsOf((*workflowservice.WorkflowServiceClient)(nil))
	ad := verifMethodsOf((*adminservice.AdminServiceClient)(nil))
	verifAssert(len(wf) > 50 && len(ad) > 20, "method-sets-enumerated")
	for _, m := range wf {
		verifAssert(!tr.MatchMethod(api.WorkflowServicePrefix+m), "workflow-service-methods-are-left-alone")
	}
	for _, m := range ad {
		verifAssert(tr.MatchMethod(api.AdminServicePrefix+m), "admin-service-methods-are-translated")
	}
	verifReach("method-filter-checked")
}

package interceptor

import (
	"context"

	"go.temporal.io/api/common/v1"
	"go.temporal.io/api/workflowservice/v1"
	"go.temporal.io/server/api/adminservice/v1"
	"go.temporal.io/server/common/api"
	"go.temporal.io/server/common/log"
	"google.golang.org/grpc"
	"google.golang.org/grpc/metadata"

	s2scommon "github.com/temporalio/s2s-proxy/common"
)

// ---------------------------------------------------------------------------
// C14 (kernel) — search-attribute keys renamed consistently, values untouched,
// workflow-service traffic excluded.

func c14Mappings() []map[string]string {
	return []map[string]string{
		{},
		{"k1": "t1"},
		{"k1": "t1", "k2": "t2"},
		{"k1": "t1", "k2": "t2", "k3": "t3"},
		{"k1": "k2"},             // target collides with another possible key
		{"k1": "k2", "k2": "k3"}, // chain
		{"k1": "k1"},             // identity mapping
		{"x": "t1", "k3": "x2"},
		{"k1": "k2", "k2": "k1"}, // swap
	}
}

func c14Invert(m map[string]string) map[string]string {
	r := map[string]string{}
	for k, v := range m {
		r[v] = k
	}
	return r
}

func verifHarness_C14_indexedFields() {
	verifConfig("maporder", verifParam("maporder", 0)) // Go's map iteration order is unspecified: rotations explored in the thorough tier
	universe := []string{"k1", "k2", "k3", "x"}
	mapping := c14Mappings()[verifChoose("mapping", len(c14Mappings()))]
	var fields map[string]*common.Payload
	nilMap := verifChoose("nil-fields", 2) == 1
	payload := map[string]*common.Payload{}
	if !nilMap {
		fields = map[string]*common.Payload{}
		for i, k := range universe {
			if verifChoose("has:"+k, 2) == 1 {
				p := &common.Payload{Data: []byte{byte(i)}}
				fields[k] = p
				payload[k] = p
			}
		}
	}
	// precondition of the property: keys do not collide with mapping targets. A present key that is a
	// target collides only if it stays where it is (a key that is itself renamed away, as in a chain
	// a->b, b->c or a swap, makes room: the renaming is simultaneous)
	for from, to := range mapping {
		if _, isKey := fields[to]; isKey && from != to {
			if next, moved := mapping[to]; !moved || next == to {
				verifAssume(false)
			}
			if _, fromPresent := fields[from]; fromPresent {
				verifReach("renamed-onto-a-key-that-is-itself-renamed")
			}
		}
	}
	match := createStringMatcher(mapping)
	out, matched := translateIndexedFields(fields, match)
	if nilMap {
		verifAssert(out == nil && !matched, "nil-stays-nil")
		return
	}
	verifReach("fields-translated")
	verifAssert(len(out) == len(fields), "same-number-of-entries")
	anyMapped := false
	for k, p := range payload {
		want := k
		if to, ok := mapping[k]; ok {
			want = to
			anyMapped = true
			if to != k {
				verifReach("key-renamed")
			}
		}
		got, ok := out[want]
		verifAssert(ok, "every-key-present-under-its-counterpart")
		verifAssert(verifSameObject(got, p), "value-untouched(same-payload-object)")
	}
	verifAssert(matched == anyMapped, "reports-whether-anything-matched")
	// the input map itself is not modified
	verifAssert(len(fields) == len(payload), "input-map-untouched")

	// request and response directions are mutual inverses
	tr := NewSearchAttributeTranslator(log.NewNoopLogger(), map[string]map[string]string{"ns": mapping}, map[string]map[string]string{"ns": c14Invert(mapping)}).(*saTranslator)
	there, _ := translateIndexedFields(fields, tr.getNamespaceReqMatcher(""))
	collide := false // the translated key set must again not collide with targets of the inverse
	for from, to := range c14Invert(mapping) {
		if _, isKey := there[to]; isKey && from != to {
			if next, moved := c14Invert(mapping)[to]; !moved || next == to {
				collide = true
			}
		}
	}
	if !collide {
		back, _ := translateIndexedFields(there, tr.getNamespaceRespMatcher(""))
		verifAssert(len(back) == len(fields), "round-trip-same-size")
		for k, p := range payload {
			got, ok := back[k]
			verifAssert(ok && verifSameObject(got, p), "round-trip-restores-keys-and-values")
		}
	}
}

func verifHarness_C14_methodFilter() {
	tr := NewSearchAttributeTranslator(log.NewNoopLogger(), nil, nil)
	wf := verifMethodsOf((*workflowservice.WorkflowServiceClient)(nil))
	ad := verifMethodsOf((*adminservice.AdminServiceClient)(nil))
	verifAssert(len(wf) > 50 && len(ad) > 20, "method-sets-enumerated")
	for _, m := range wf {
		verifAssert(!tr.MatchMethod(api.WorkflowServicePrefix+m), "workflow-service-methods-are-left-alone")
	}
	for _, m := range ad {
		verifAssert(tr.MatchMethod(api.AdminServicePrefix+m), "admin-service-methods-are-translated")
	}
	verifReach("method-filter-checked")
}

// verifHarness_C14_dispatch: the translation interceptor asks every translator, with the call's *full*
// method name, whether it applies — before the handler for the request and after it for the response.
// The real method filters are used (the search-attribute translator leaves WorkflowService calls alone,
// the namespace translator applies to both services); the translations themselves are counted only.
type c14Spy struct {
	Translator
	reqs, resps int
	sawReq      any
	sawResp     any
}

func (s *c14Spy) TranslateRequest(o any) (bool, error)  { s.reqs++; s.sawReq = o; return false, nil }
func (s *c14Spy) TranslateResponse(o any) (bool, error) { s.resps++; s.sawResp = o; return false, nil }

func verifHarness_C14_dispatch() {
	sa := &c14Spy{Translator: NewSearchAttributeTranslator(log.NewNoopLogger(), nil, nil)}
	ns := &c14Spy{Translator: NewNamespaceNameTranslator(log.NewNoopLogger(), map[string]string{"a": "b"}, map[string]string{"b": "a"})}
	var trs []Translator
	if verifChoose("translator-order", 2) == 0 {
		trs = []Translator{ns, sa}
	} else {
		trs = []Translator{sa, ns}
	}
	ic := NewTranslationInterceptor(log.NewNoopLogger(), trs)
	wf := verifMethodsOf((*workflowservice.WorkflowServiceClient)(nil))
	ad := verifMethodsOf((*adminservice.AdminServiceClient)(nil))
	service := verifChoose("service", 3)
	var full string
	switch service {
	case 0:
		full = api.WorkflowServicePrefix + wf[verifChoose("workflow-method", len(wf))]
	case 1:
		full = api.AdminServicePrefix + ad[verifChoose("admin-method", len(ad))]
	default:
		full = "/grpc.health.v1.Health/Check"
	}
	bypass := verifChoose("bypass-header", 2) == 1
	md := metadata.Pairs("x", "y")
	if bypass {
		md.Set(s2scommon.RequestTranslationHeaderName, "false")
	}
	ctx := metadata.NewIncomingContext(context.Background(), md)
	req, resp := &workflowservice.DescribeNamespaceRequest{Namespace: "a"}, &workflowservice.DescribeNamespaceResponse{}
	invoked := 0
	out, err := ic.Intercept(ctx, req, &grpc.UnaryServerInfo{FullMethod: full}, func(ctx context.Context, r any) (any, error) {
		invoked++
		verifAssert(sa.resps == 0 && ns.resps == 0, "dispatch:no-response-translation-before-the-handler")
		return resp, nil
	})
	verifAssert(invoked == 1 && err == nil && out == any(resp), "dispatch:handler-invoked-once-and-its-response-returned")
	switch {
	case bypass || service == 2:
		verifReach("dispatch-untranslated-call")
		verifAssert(sa.reqs+sa.resps+ns.reqs+ns.resps == 0, "dispatch:bypassed-or-foreign-call-is-not-translated")
	case service == 0:
		verifReach("dispatch-workflow-service")
		verifAssert(sa.reqs == 0 && sa.resps == 0, "dispatch:search-attribute-keys-of-workflow-service-calls-are-left-alone(request-and-response)")
		verifAssert(ns.reqs == 1 && ns.resps == 1, "dispatch:namespace-names-translated-once-each-way")
	default:
		verifReach("dispatch-admin-service")
		verifAssert(sa.reqs == 1 && sa.resps == 1, "dispatch:search-attribute-keys-of-admin-calls-translated-once-each-way")
		verifAssert(ns.reqs == 1 && ns.resps == 1, "dispatch:namespace-names-translated-once-each-way")
	}
	if ns.reqs == 1 {
		verifAssert(ns.sawReq == any(req) && ns.sawResp == any(resp), "dispatch:translators-see-the-request-and-the-handlers-response")
	}
}

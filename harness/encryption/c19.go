package encryption

import (
	"bytes"
	"crypto/tls"
	"crypto/x509"
	"encoding/pem"
	"errors"
	"io"
	"net"
	"net/http"

	"go.temporal.io/server/common/log"
)

// ---------------------------------------------------------------------------
// C19 — TLS endpoints admit only peers authenticated by the configured CA
// (configuration level). The oracle is the documented contract of crypto/tls:
//
//   server: the client chain is verified against ClientCAs only for
//           VerifyClientCertIfGiven / RequireAndVerifyClientCert; a certificate
//           is *required* only for RequireAnyClientCert / RequireAndVerifyClientCert.
//           => "admits only peers presenting a certificate chaining to the CA"
//              <=> ClientAuth == RequireAndVerifyClientCert && ClientCAs = the CA pool.
//           VerifyPeerCertificate returning nil adds nothing.
//   client: chain and name are verified iff !InsecureSkipVerify, against RootCAs
//           (nil = system roots) and ServerName.

// ---- environment stubs (served through the engine's redirect table)

type c19Bundle struct {
	blocks  int  // PEM blocks left to hand out
	anyCA   bool // a CERTIFICATE block with IsCA was handed out
	decoded int
}

var c19Cur *c19Bundle
var c19PoolFromBundle = map[*x509.CertPool]*c19Bundle{}
var c19ReadErr bool
var c19KeyPairErr bool

func verifStub_ReadFile(name string) ([]byte, error) {
	if name == "" || c19ReadErr {
		return nil, errors.New("open: no such file")
	}
	return []byte(name), nil
}

func verifStub_pemDecode(data []byte) (*pem.Block, []byte) {
	b := c19Cur
	if b == nil || b.blocks == 0 {
		return nil, data
	}
	b.blocks--
	b.decoded++
	if verifChoose("pem-block-type", 2) == 1 {
		return &pem.Block{Type: "PRIVATE KEY"}, data
	}
	return &pem.Block{Type: "CERTIFICATE", Bytes: []byte{1}}, data
}

func verifStub_ParseCertificate(der []byte) (*x509.Certificate, error) {
	if verifChoose("parse-cert", 3) == 2 {
		return nil, errors.New("x509: malformed certificate")
	}
	isCA := verifNondetBool("cert.IsCA")
	if isCA {
		c19Cur.anyCA = true
	}
	// key usage is independent of the CA flag: an end-entity certificate may carry keyCertSign, that does not
	// make it a CA (Go's verifier only accepts issuers whose basic constraints say CA)
	cert := &x509.Certificate{IsCA: isCA, BasicConstraintsValid: true}
	if verifNondetBool("cert.KeyUsageCertSign") {
		cert.KeyUsage = x509.KeyUsageCertSign
	}
	return cert, nil
}

func verifStub_NewCertPool() *x509.CertPool { return &x509.CertPool{} }

func verifStub_AppendCertsFromPEM(p *x509.CertPool, pemCerts []byte) bool {
	if verifChoose("append-certs", 2) == 1 {
		return false
	}
	c19PoolFromBundle[p] = c19Cur
	return true
}

func verifStub_LoadX509KeyPair(certFile, keyFile string) (tls.Certificate, error) {
	if c19KeyPairErr {
		return tls.Certificate{}, errors.New("tls: failed to find any PEM data")
	}
	return tls.Certificate{Certificate: [][]byte{{1}}}, nil
}

type c19Getter struct{ fail bool }

func (g c19Getter) Get(url string) (*http.Response, error) {
	if g.fail {
		return nil, errors.New("get failed")
	}
	return &http.Response{Body: io.NopCloser(bytes.NewReader([]byte("bundle")))}, nil
}

func c19Config() TLSConfig {
	var c TLSConfig
	if verifNondetBool("hasCert") {
		c.CertificatePath = "cert.pem"
	}
	if verifNondetBool("hasKey") {
		c.KeyPath = "key.pem"
	}
	switch verifChoose("caPath", 4) {
	case 1:
		c.RemoteCAPath = "ca.pem"
	case 2:
		c.RemoteCAPath = "https://ca.example/bundle"
	case 3:
		c.RemoteCAPath = "http://ca.example/bundle"
	}
	// the configured name the peer's certificate must match: a DNS name or an IP literal
	switch verifChoose("serverName", 4) {
	case 1:
		c.CAServerName = "peer.example"
	case 2:
		c.CAServerName = "10.20.30.40"
		verifReach("ip-literal-server-name")
	case 3:
		c.CAServerName = "::1"
	}
	c.SkipCAVerification = verifNondetBool("skipVerification")
	c19Cur = &c19Bundle{blocks: verifChoose("bundle-blocks", verifParam("maxblocks", 2)+1)}
	c19ReadErr = verifNondetBool("readFileFails")
	c19KeyPairErr = verifNondetBool("keyPairFails")
	netClient = c19Getter{fail: verifNondetBool("httpGetFails")}
	return c
}

func c19PoolOK(p *x509.CertPool, label string) {
	verifAssert(p != nil, label+":ca-pool-configured")
	if p == nil {
		return
	}
	b := c19PoolFromBundle[p]
	verifAssert(b != nil, label+":ca-pool-built-from-the-configured-bundle")
	if b != nil {
		verifAssert(b.anyCA, label+":bundle-without-a-CA-certificate-must-be-rejected")
	}
}

func verifHarness_C19_server() {
	c := c19Config()
	// a cluster connection builds its client-side configs before its server-side ones, possibly from
	// the very same tls block: what was built before must not influence this config
	if verifChoose("client-config-built-first", 2) == 1 {
		_, _ = GetClientTLSConfig(c)
		verifReach("client-config-built-first")
	}
	cfg, err := GetServerTLSConfig(c, log.NewNoopLogger())
	if !c.IsEnabled() {
		verifAssert(cfg == nil && err == nil, "server:tls-disabled-yields-no-config")
		return
	}
	if err != nil {
		verifAssert(cfg == nil, "server:error-yields-no-config")
		verifReach("server-config-error")
		return
	}
	verifAssert(cfg != nil, "server:enabled-yields-config")
	if c.SkipCAVerification {
		verifReach("server-verification-skipped")
		return // explicitly relaxed
	}
	verifReach("server-verification-on")
	// contract table: only this mode both requires a certificate and verifies it against ClientCAs
	verifAssert(cfg.ClientAuth == tls.RequireAndVerifyClientCert, "server:client-certificate-required-and-verified-against-CA")
	c19PoolOK(cfg.ClientCAs, "server")
	verifAssert(!cfg.InsecureSkipVerify, "server:no-insecure-skip")
	// crypto/tls: a non-nil config returned by GetConfigForClient replaces this one for that connection,
	// so whatever it hands out for any ClientHello must enforce the same
	if cfg.GetConfigForClient != nil {
		hello := &tls.ClientHelloInfo{ServerName: "peer", Conn: c19Conn{}}
		switch verifChoose("client-hello-alpn", 4) {
		case 1:
			hello.SupportedProtos = []string{"h2"}
		case 2:
			hello.SupportedProtos = []string{"http/1.1"}
		case 3:
			hello.SupportedProtos = []string{"yamux", "h2"}
		}
		per, perr := cfg.GetConfigForClient(hello)
		verifReach("per-connection-config-callback-run")
		if perr == nil && per != nil {
			verifAssert(per.ClientAuth == tls.RequireAndVerifyClientCert, "server:per-connection-config-requires-and-verifies-the-client-certificate")
			c19PoolOK(per.ClientCAs, "server-per-connection")
			verifAssert(!per.InsecureSkipVerify, "server:per-connection-config-no-insecure-skip")
		}
	}
}

type c19Conn struct{ net.Conn }
type c19Addr struct{}

func (c19Addr) Network() string      { return "tcp" }
func (c19Addr) String() string       { return "peer:1" }
func (c19Conn) RemoteAddr() net.Addr { return c19Addr{} }

func verifStub_SupportsCertificate(h *tls.ClientHelloInfo, c *tls.Certificate) error {
	if verifChoose("hello-supports-our-certificate", 2) == 1 {
		return errors.New("verif: client does not support the certificate")
	}
	return nil
}

func verifHarness_C19_client() {
	c := c19Config()
	if verifChoose("server-config-built-first", 2) == 1 {
		_, _ = GetServerTLSConfig(c, log.NewNoopLogger())
		verifReach("server-config-built-first")
	}
	cfg, err := GetClientTLSConfig(c)
	if !c.IsEnabled() {
		verifAssert(cfg == nil && err == nil, "client:tls-disabled-yields-no-config")
		return
	}
	if err != nil {
		verifAssert(cfg == nil, "client:error-yields-no-config")
		verifReach("client-config-error")
		return
	}
	verifAssert(cfg != nil, "client:enabled-yields-config")
	if c.SkipCAVerification {
		verifReach("client-verification-skipped")
		return
	}
	verifReach("client-verification-on")
	verifAssert(!cfg.InsecureSkipVerify, "client:server-certificate-verified")
	verifAssert(cfg.ServerName == c.CAServerName && cfg.ServerName != "", "client:configured-server-name-enforced")
	if c.RemoteCAPath != "" {
		c19PoolOK(cfg.RootCAs, "client")
	} else {
		verifAssert(cfg.RootCAs == nil, "client:no-CA-configured-means-system-roots")
	}
	verifAssert(cfg.VerifyPeerCertificate == nil && cfg.VerifyConnection == nil, "client:no-custom-verifier-weakens-verification")
}

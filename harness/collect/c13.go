package collect

// ---------------------------------------------------------------------------
// C13 (kernel) — the bidirectional map rejects non-injective mappings and is
// invertible. Keys and values are symbolic integers (the map is generic over
// comparable types; the string instantiation is exercised at config level).

func c13Seq(ks, vs []int32) func(yield func(int32, int32) bool) {
	return func(yield func(int32, int32) bool) {
		for i := range ks {
			if !yield(ks[i], vs[i]) {
				return
			}
		}
	}
}

func verifHarness_C13_bimap() {
	n := verifChoose("pairs", 4) // 0..3 pairs
	ks := make([]int32, n)
	vs := make([]int32, n)
	dupKey, dupVal := false, false
	for i := 0; i < n; i++ {
		ks[i] = verifNondetInt32("key")
		vs[i] = verifNondetInt32("val")
		for j := 0; j < i; j++ {
			dupKey = verifOr(dupKey, ks[i] == ks[j])
			dupVal = verifOr(dupVal, vs[i] == vs[j])
		}
	}
	m, err := NewStaticBiMap(c13Seq(ks, vs), n)
	verifReachIf(verifOr(dupKey, dupVal), "non-injective-mapping")
	verifReachIf(verifNot(verifOr(dupKey, dupVal)), "injective-mapping")
	// rejected iff two pairs share a key or share a value
	verifAssert((err != nil) == verifOr(dupKey, dupVal), "construction-fails-iff-mapping-is-not-one-to-one")
	if err != nil {
		verifAssert(m == nil, "no-map-on-error")
		return
	}
	verifAssert(m.Len() == n && m.Inverse().Len() == n, "length-is-number-of-pairs")
	inv := m.Inverse()
	for i := 0; i < n; i++ {
		verifAssert(m.Get(ks[i]) == vs[i], "forward-lookup")
		verifAssert(inv.Get(vs[i]) == ks[i], "inverse-lookup")
		verifAssert(inv.Get(m.Get(ks[i])) == ks[i], "round-trip-restores-key")
		verifAssert(m.Get(inv.Get(vs[i])) == vs[i], "round-trip-restores-value")
	}
	// an arbitrary probe: found iff it is one of the keys; never a prefix/partial match
	p := verifNondetInt32("probe")
	got, ok := m.GetExists(p)
	isKey := false
	for i := 0; i < n; i++ {
		isKey = verifOr(isKey, p == ks[i])
		verifAssert(verifImplies(p == ks[i], verifAnd(ok, got == vs[i])), "probe-equal-to-key-maps-to-its-value")
	}
	verifAssert(ok == isKey, "probe-found-iff-it-is-a-key")
	verifAssert(verifSameObject(inv.Inverse(), m) || inv.Inverse().Len() == n, "inverse-of-inverse")
}

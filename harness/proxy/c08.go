package proxy

import (
	"context"

	"go.temporal.io/server/api/adminservice/v1"
	replicationv1 "go.temporal.io/server/api/replication/v1"
	"go.temporal.io/server/client/history"
	"go.temporal.io/server/common/channel"
	"google.golang.org/grpc"
)

func channelNewShutdownOnce() channel.ShutdownOnce { return channel.NewShutdownOnce() }

// ---------------------------------------------------------------------------
// C08 — reconnecting streams never orphan, steal or crash a registration.

var c08Perms = map[int][][]int{
	2: {{0, 1}, {1, 0}},
	3: {{0, 1, 2}, {0, 2, 1}, {1, 0, 2}, {1, 2, 0}, {2, 0, 1}, {2, 1, 0}},
}

func c08Impl(e *rtEnv) *shardManagerImpl { return e.sm.(*shardManagerImpl) }

// every order of n events
func c08AllPerms(n int) [][]int {
	if n <= 3 {
		return c08Perms[n]
	}
	var res [][]int
	var rec func(cur []int, used []bool)
	rec = func(cur []int, used []bool) {
		if len(cur) == n {
			res = append(res, append([]int{}, cur...))
			return
		}
		for i := 0; i < n; i++ {
			if !used[i] {
				used[i] = true
				rec(append(cur, i), used)
				used[i] = false
			}
		}
	}
	rec(nil, make([]bool, n))
	return res
}

// c08CheckSender: sender incarnation `snd` (live) must own every registry entry of its shard.
func c08CheckSenderRegistered(e *rtEnv, snd *proxyStreamSender, label string) {
	sm := c08Impl(e)
	ch, ok := sm.GetRemoteSendChan(snd.targetShardID)
	verifAssert(ok, label+":delivery-channel-registered-for-live-sender")
	if ok {
		verifAssert(ch == snd.sendMsgChan, label+":delivery-channel-is-the-newest-live-senders")
	}
	_, owned := sm.GetLocalShards()[ClusterShardIDtoShortString(snd.targetShardID)]
	verifAssert(owned, label+":shard-owned-while-its-newest-sender-is-live")
}

func c08CheckReceiverRegistered(e *rtEnv, rcv *proxyStreamReceiver, label string) {
	sm := c08Impl(e)
	ch, ok := sm.GetLocalAckChan(rcv.sourceShardID)
	verifAssert(ok, label+":ack-channel-registered-for-live-receiver")
	if ok {
		verifAssert(ch == rcv.ackChan, label+":ack-channel-is-the-newest-live-receivers")
	}
	_, hasCancel := sm.GetLocalReceiverCancelFunc(rcv.sourceShardID)
	verifAssert(hasCancel, label+":cancel-func-registered-for-live-receiver")
	ar, hasAR := sm.GetActiveReceiver(rcv.sourceShardID)
	verifAssert(hasAR, label+":watermark-replay-registered-for-live-receiver")
	if hasAR {
		verifAssert(ar == ActiveReceiver(rcv), label+":watermark-replay-is-the-newest-live-receivers")
	}
}

func c08CheckEmpty(e *rtEnv, label string) {
	sm := c08Impl(e)
	verifAssert(len(sm.GetLocalShards()) == 0, label+":no-shard-owned-after-all-streams-ended")
	info := sm.GetChannelInfo()
	verifAssert(info.TotalSendChannels == 0, label+":no-delivery-channel-after-all-streams-ended")
	verifAssert(info.TotalAckChannels == 0, label+":no-ack-channel-after-all-streams-ended")
	sm.localReceiverCancelFuncsMu.RLock()
	nCancel := len(sm.localReceiverCancelFuncs)
	sm.localReceiverCancelFuncsMu.RUnlock()
	verifAssert(nCancel == 0, label+":no-cancel-func-after-all-streams-ended")
	sm.activeReceiversMu.RLock()
	nAR := len(sm.activeReceivers)
	sm.activeReceiversMu.RUnlock()
	verifAssert(nAR == 0, label+":no-active-receiver-after-all-streams-ended")
	verifAssert(verifLiveThreads() == 0, label+":no-worker-left-running")
}

// verifHarness_C08_senders: successive incarnations of one sender shard whose
// lifetimes overlap, an optional concurrent ownership announcement from a
// peer (watermark replay), under bounded pre-emption.
func verifHarness_C08_senders() {
	verifConfig("preempt", verifParam("preempt", 1))
	nInc := verifParam("incarnations", 2)
	announce := verifParam("announce", 1)
	e := rtNewEnv(1, 1)
	shard := history.ClusterShardID{ClusterID: rtTargetCluster, ShardID: 1}

	// a receiver that has seen a watermark, so that replays to new target shards happen
	src := e.newSource(0)
	e.sources = []*rtSource{src}
	rcv, rcvShut := e.startReceiver(src)
	verifQuiesce()
	e.emitBatch(src, 0)
	verifQuiesce()

	var intraRcv *intraProxyStreamReceiver
	// intra=1: a second active receiver, of the kind that relays a peer proxy's source shard, holding
	// a watermark: it replays that watermark to newly registered target shards as well
	if verifParam("intra", 0) == 1 {
		ir := &intraProxyStreamReceiver{logger: e.logger, shardManager: e.sm, peerNodeName: "peer",
			targetShardID: shard, sourceShardID: history.ClusterShardID{ClusterID: src.shard.ClusterID, ShardID: 9},
			lastWatermark: &replicationv1.WorkflowReplicationMessages{ExclusiveHighWatermark: 7}}
		e.sm.RegisterActiveReceiver(ir.sourceShardID, ir)
		intraRcv = ir
		verifReach("intra-proxy-receiver-active")
	}
	var streams []*rtTarget
	var senders []*proxyStreamSender
	for k := 0; k < nInc; k++ {
		t := e.newTarget(0, k)
		streams = append(streams, t)
	}
	// incarnation 0 starts and settles
	snd0, _ := e.startSender(streams[0])
	senders = append(senders, snd0)
	verifQuiesce()
	c08CheckSenderRegistered(e, snd0, "first")

	for k := 1; k < nInc; k++ {
		// the previous incarnation's stream dies, the next one connects, and (optionally) a peer
		// instance announces ownership of the same shard (=> watermark replay to it), in any
		// order, with the scheduler free to interleave their register/unregister steps
		evs := []int{0, 1}
		if announce > 0 {
			evs = append(evs, 2)
		}
		if verifParam("deliver", 0) > 0 {
			// a message routed to the shard while its sender incarnations change hands: it reaches a
			// live incarnation or is reported undelivered, and never crashes the process
			evs = append(evs, 3)
		}
		perms := c08AllPerms(len(evs))
		perm := perms[verifChoose("order", len(perms))]
		for _, pi := range perm {
			switch evs[pi] {
			case 3:
				verifAction("deliver-message")
				verifReach("message-routed-during-hand-over")
				msg := &RoutedMessage{SourceShard: src.shard, Resp: &adminservice.StreamWorkflowReplicationMessagesResponse{
					Attributes: &adminservice.StreamWorkflowReplicationMessagesResponse_Messages{
						Messages: &replicationv1.WorkflowReplicationMessages{ExclusiveHighWatermark: 1}}}}
				go e.sm.DeliverMessagesToShardOwner(shard, msg, channelNewShutdownOnce(), e.logger)
			case 0:
				verifAction("break-old")
				close(streams[k-1].broken)
			case 1:
				verifAction("connect-new")
				snd, _ := e.startSender(streams[k])
				senders = append(senders, snd)
			case 2:
				verifAction("remote-announcement")
				if cb := c08Impl(e).onRemoteShardChange; cb != nil {
					go cb("peer", shard, true)
				}
			}
		}
		verifQuiesce()
		verifQuiesce()
		verifReach("incarnations-overlapped")
		c08CheckSenderRegistered(e, senders[k], "successor")
		// watermark replay: the receiver has seen a watermark, so the newest live stream of the shard
		// has been handed it (otherwise an idle source's stream stays silent)
		verifAssert(streams[k].msgs > 0, "successor:newest-live-sender-received-the-watermark-replay")
	}
	// everything ends
	close(streams[nInc-1].broken)
	rcvShut.Shutdown()
	close(src.broken)
	verifQuiesce()
	verifQuiesce()
	_ = rcv
	if intraRcv != nil {
		e.sm.UnregisterActiveReceiver(intraRcv.sourceShardID, intraRcv) // the peer's stream ends too
	}
	c08CheckEmpty(e, "end")
}

// verifHarness_C08_receivers: successive incarnations of one receiver shard.
func verifHarness_C08_receivers() {
	verifConfig("preempt", verifParam("preempt", 0))
	nInc := verifParam("incarnations", 2)
	e := rtNewEnv(1, 1)
	var srcs []*rtSource
	var rcvs []*proxyStreamReceiver
	for k := 0; k < nInc; k++ {
		s := e.newSource(0)
		s.halfCloseEnds = true
		srcs = append(srcs, s)
	}
	r0, _ := e.startReceiver(srcs[0])
	rcvs = append(rcvs, r0)
	verifQuiesce()
	c08CheckReceiverRegistered(e, r0, "first")
	for k := 1; k < nInc; k++ {
		verifAction("receiver-reconnect")
		// the new incarnation terminates its predecessor itself (TerminatePreviousLocalReceiver)
		if k == nInc-1 && verifChoose("successor-open", 2) == 1 {
			// ... and then fails to open its own stream: the predecessor was told to stop, the successor
			// never came up, so every stream of the shard has ended
			verifAction("successor-open-fails")
			rcv := &proxyStreamReceiver{
				logger: e.logger, shardManager: e.sm, adminClient: &rtAdminClient{src: srcs[k], fail: true},
				localShardCount: 1, sourceShardID: srcs[k].shard,
				targetShardID: history.ClusterShardID{ClusterID: rtTargetCluster, ShardID: srcs[k].shard.ShardID}, directionLabel: "verif",
			}
			go rcv.Run(channelNewShutdownOnce())
			verifQuiesce()
			verifQuiesce()
			verifReach("successor-failed-to-open")
			c08CheckEmpty(e, "successor-open-failed")
			return
		}
		r, _ := e.startReceiver(srcs[k])
		rcvs = append(rcvs, r)
		verifQuiesce()
		verifQuiesce()
		verifReach("receiver-incarnations-overlapped")
		c08CheckReceiverRegistered(e, r, "successor")
	}
	close(srcs[nInc-1].broken)
	verifQuiesce()
	verifQuiesce()
	c08CheckEmpty(e, "end")
}

// verifHarness_C08_receiversGated: two incarnations of one receiver shard that are both still
// opening their streams (so neither evicted the other); the older one registers, then the younger
// one registers while the older one's stream ends, in any interleaving.
func verifHarness_C08_receiversGated() {
	verifConfig("preempt", verifParam("preempt", 1))
	e := rtNewEnv(1, 1)
	var srcs [2]*rtSource
	var rcvs [2]*proxyStreamReceiver
	var gates [2]chan struct{}
	for k := 0; k < 2; k++ {
		s := e.newSource(0)
		s.halfCloseEnds = true
		srcs[k] = s
		gates[k] = make(chan struct{})
		rcv := &proxyStreamReceiver{
			logger: e.logger, shardManager: e.sm, adminClient: &rtAdminClient{src: s, gate: gates[k]},
			localShardCount: 1, sourceShardID: s.shard,
			targetShardID: history.ClusterShardID{ClusterID: rtTargetCluster, ShardID: 1}, directionLabel: "verif",
		}
		rcvs[k] = rcv
		go rcv.Run(channelNewShutdownOnce())
	}
	verifQuiesce() // both passed TerminatePreviousLocalReceiver (nothing registered yet) and wait for their streams
	close(gates[0])
	verifQuiesce()
	c08CheckReceiverRegistered(e, rcvs[0], "older")
	if verifChoose("order", 2) == 0 {
		verifAction("younger-registers-then-older-ends")
		close(gates[1])
		close(srcs[0].broken)
	} else {
		verifAction("older-ends-then-younger-registers")
		close(srcs[0].broken)
		close(gates[1])
	}
	verifQuiesce()
	verifQuiesce()
	verifReach("gated-incarnations-overlapped")
	c08CheckReceiverRegistered(e, rcvs[1], "younger")
	close(srcs[1].broken)
	verifQuiesce()
	verifQuiesce()
	c08CheckEmpty(e, "end")
}

// verifHarness_C08_closedWindow: the state inside a dying incarnation's teardown window, built
// directly: its delivery (or acknowledgement) channel is already closed but still registered. Every
// send site that can hit that window must survive it and report the hand-off as NOT delivered (so the
// caller retries with the next incarnation instead of counting a dropped batch as handed off).
func verifHarness_C08_closedWindow() {
	verifConfig("preempt", 0)
	e := rtNewEnv(1, 1)
	sm := c08Impl(e)
	target := history.ClusterShardID{ClusterID: rtTargetCluster, ShardID: 1}
	source := history.ClusterShardID{ClusterID: 1, ShardID: 1}
	wm := &replicationv1.WorkflowReplicationMessages{ExclusiveHighWatermark: 7}
	switch verifChoose("send-site", 5) {
	case 0:
		verifAction("deliver-message-to-closed-channel")
		ch := make(chan RoutedMessage, 4)
		sm.SetRemoteSendChan(target, ch)
		close(ch)
		msg := &RoutedMessage{SourceShard: source, Resp: &adminservice.StreamWorkflowReplicationMessagesResponse{
			Attributes: &adminservice.StreamWorkflowReplicationMessagesResponse_Messages{Messages: wm}}}
		ok := sm.DeliverMessagesToShardOwner(target, msg, channelNewShutdownOnce(), e.logger)
		verifAssert(!ok, "closed-window:message-hand-off-to-a-closed-channel-is-reported-undelivered")
	case 1:
		verifAction("deliver-ack-to-closed-channel")
		ch := make(chan RoutedAck, 4)
		sm.SetLocalAckChan(source, ch)
		close(ch)
		ack := &RoutedAck{TargetShard: target, Req: &adminservice.StreamWorkflowReplicationMessagesRequest{
			Attributes: &adminservice.StreamWorkflowReplicationMessagesRequest_SyncReplicationState{
				SyncReplicationState: &replicationv1.SyncReplicationState{InclusiveLowWatermark: 3}}}}
		ok := sm.DeliverAckToShardOwner(source, ack, channelNewShutdownOnce(), e.logger, 3, false)
		verifAssert(!ok, "closed-window:ack-hand-off-to-a-closed-channel-is-reported-undelivered")
	case 2:
		verifAction("routing-receiver-replay-to-closed-channel")
		ch := make(chan RoutedMessage, 4)
		sm.SetRemoteSendChan(target, ch)
		close(ch)
		r := &proxyStreamReceiver{logger: e.logger, shardManager: e.sm, sourceShardID: source, lastWatermark: wm}
		r.NotifyNewTargetShard(target)
	case 3:
		verifAction("intra-proxy-receiver-replay-to-closed-channel")
		ch := make(chan RoutedMessage, 4)
		sm.SetRemoteSendChan(target, ch)
		close(ch)
		r := &intraProxyStreamReceiver{logger: e.logger, shardManager: e.sm, peerNodeName: "peer",
			targetShardID: target, sourceShardID: history.ClusterShardID{ClusterID: 1, ShardID: 9}, lastWatermark: wm}
		r.NotifyNewTargetShard(target)
	case 4:
		verifAction("ack-forwarded-by-a-sender-to-a-closed-channel")
		ch := make(chan RoutedAck, 4)
		sm.SetLocalAckChan(source, ch)
		close(ch)
		ack := &RoutedAck{TargetShard: target, Req: &adminservice.StreamWorkflowReplicationMessagesRequest{}}
		ok := sm.DeliverAckToShardOwner(source, ack, channelNewShutdownOnce(), e.logger, 3, true)
		verifAssert(!ok, "closed-window:ack-hand-off-to-a-closed-channel-is-reported-undelivered")
	}
	verifReach("closed-window-survived")
}

// ---- intra-proxy receivers (streams from a peer proxy that owns the source shard)

var c08NextPeerStream *rtSource

// redirect target for adminservice.NewAdminServiceClient: the peer's admin service
func verifStub_NewAdminServiceClient(cc grpc.ClientConnInterface) adminservice.AdminServiceClient {
	return &rtAdminClient{src: c08NextPeerStream}
}

// verifHarness_C08_intraReceivers: two live intra-proxy receivers for the same source shard (one per
// local target shard it feeds, or two incarnations of one): when one of them ends, the other - the
// newest live one - must still be registered for watermark replay, and once both have ended nothing
// remains registered.
func verifHarness_C08_intraReceivers() {
	verifConfig("preempt", verifParam("preempt", 0))
	e := rtNewEnv(1, 1)
	sm := c08Impl(e)
	source := history.ClusterShardID{ClusterID: 1, ShardID: 1}
	mk := func(targetShard int32) (*intraProxyStreamReceiver, *rtSource) {
		s := e.newSource(0)
		r := &intraProxyStreamReceiver{logger: e.logger, shardManager: e.sm, intraMgr: sm.intraMgr, peerNodeName: "peer",
			targetShardID: history.ClusterShardID{ClusterID: rtTargetCluster, ShardID: targetShard}, sourceShardID: source,
			shutdown: channelNewShutdownOnce()}
		return r, s
	}
	sameTarget := verifChoose("second-receiver", 2) == 1 // 0: for another local target shard, 1: a new incarnation for the same one
	t2 := int32(2)
	if sameTarget {
		t2 = 1
	}
	r0, s0 := mk(1)
	c08NextPeerStream = s0
	go func() { _ = r0.Run(context.Background(), e.sm, nil) }()
	verifQuiesce()
	ar, ok := sm.GetActiveReceiver(source)
	verifAssert(ok && ar == ActiveReceiver(r0), "intra:first-receiver-registered")
	r1, s1 := mk(t2)
	c08NextPeerStream = s1
	go func() { _ = r1.Run(context.Background(), e.sm, nil) }()
	verifQuiesce()
	ar, ok = sm.GetActiveReceiver(source)
	verifAssert(ok && ar == ActiveReceiver(r1), "intra:newest-receiver-registered")
	// the older stream ends
	verifAction("older-intra-stream-ends")
	close(s0.broken)
	verifQuiesce()
	verifQuiesce()
	verifReach("older-intra-receiver-ended")
	ar, ok = sm.GetActiveReceiver(source)
	verifAssert(ok && ar == ActiveReceiver(r1), "intra:live-receiver-still-registered-after-the-older-one-ended")
	close(s1.broken)
	verifQuiesce()
	verifQuiesce()
	_, ok = sm.GetActiveReceiver(source)
	verifAssert(!ok, "intra:nothing-registered-after-both-ended")
	verifAssert(verifLiveThreads() == 0, "intra:no-worker-left-running")
}

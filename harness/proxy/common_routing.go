package proxy

import (
	"context"
	"errors"
	"fmt"
	"io"

	"go.temporal.io/server/api/adminservice/v1"
	persistencespb "go.temporal.io/server/api/persistence/v1"
	replicationv1 "go.temporal.io/server/api/replication/v1"
	"go.temporal.io/server/client/history"
	"go.temporal.io/server/common/channel"
	"go.temporal.io/server/common/log"
	"google.golang.org/grpc"

	"github.com/temporalio/s2s-proxy/config"
	"github.com/temporalio/s2s-proxy/encryption"
	"github.com/temporalio/s2s-proxy/logging"
)

// ---------------------------------------------------------------------------
// Environment model shared by the routing properties (C01-C04, C08).
//
//   source cluster shard  --Recv-->  proxyStreamReceiver  --hand-off-->  proxyStreamSender  --Send-->  target shard
//   source cluster shard  <--Send--  (aggregated ack)     <--RoutedAck-- (un-mapped ack)    <--Recv--  target shard
//
// The proxy side is the real code; the two ends are the fakes below.

const (
	rtSourceCluster = int32(1)
	rtTargetCluster = int32(2)
)

// rtTask is the ghost record of one replication task the source emitted.
type rtTask struct {
	orig      int64 // original task id (symbolic)
	obj       *replicationv1.ReplicationTask
	source    int       // source shard index
	sentOn    *rtTarget // target stream incarnation the task was sent on (nil: not yet)
	seenCount int       // how many times it appeared on any target stream
	proxyID   int64
}

// rtSource is the fake source-cluster stream the receiver reads from.
type rtSource struct {
	grpc.ClientStream
	env      *rtEnv
	idx      int
	shard    history.ClusterShardID
	ctx      context.Context
	toProxy  chan *adminservice.StreamWorkflowReplicationMessagesResponse
	broken   chan struct{} // closed: Recv/Send fail
	acks     []int64       // SyncReplicationState watermarks the proxy sent us
	lastID   int64         // last task id emitted
	lastHigh int64         // last exclusive high watermark emitted
	emitted  int
	closeSnd int
	// halfCloseEnds: the remote stream sender ends the stream when the proxy half-closes (Temporal's behaviour)
	halfCloseEnds bool
	halfClosed    chan struct{}
	onAck         func(s *rtSource, a int64)
	opened        bool // the proxy opened this stream
}

func (s *rtSource) Recv() (*adminservice.StreamWorkflowReplicationMessagesResponse, error) {
	select {
	case m, ok := <-s.toProxy:
		if !ok {
			return nil, io.EOF
		}
		return m, nil
	case <-s.broken:
		return nil, context.Canceled
	case <-s.halfClosed:
		return nil, io.EOF
	case <-s.ctx.Done():
		return nil, s.ctx.Err()
	}
}

func (s *rtSource) Send(req *adminservice.StreamWorkflowReplicationMessagesRequest) error {
	select {
	case <-s.broken:
		return io.EOF
	default:
	}
	if st := req.GetSyncReplicationState(); st != nil {
		a := st.InclusiveLowWatermark
		verifObserve("ack-to-source", s.idx, a)
		if s.onAck != nil {
			s.onAck(s, a)
		}
		s.acks = append(s.acks, a)
	}
	return nil
}

func (s *rtSource) CloseSend() error {
	s.closeSnd++
	if s.halfCloseEnds && s.closeSnd == 1 {
		close(s.halfClosed)
	}
	return nil
}
func (s *rtSource) Context() context.Context { return s.ctx }

// rtAdminClient hands the prepared source stream to a receiver.
type rtAdminClient struct {
	adminservice.AdminServiceClient
	src  *rtSource
	gate chan struct{} // non-nil: opening the stream takes until the gate is released
	fail bool          // opening the stream fails (the local cluster is unreachable at that moment)
}

var errRtOpen = errors.New("verif: stream open failed")

func (c *rtAdminClient) StreamWorkflowReplicationMessages(ctx context.Context, opts ...grpc.CallOption) (adminservice.AdminService_StreamWorkflowReplicationMessagesClient, error) {
	if c.gate != nil {
		<-c.gate
	}
	if c.fail {
		return nil, errRtOpen
	}
	c.src.ctx = ctx
	c.src.opened = true
	return c.src, nil
}

// rtTarget is the fake target-cluster stream the sender writes to, with a
// transcription of Temporal's receiver-side ExecutableTaskTracker.
type rtTarget struct {
	grpc.ServerStream
	env      *rtEnv
	idx      int
	inc      int
	shard    history.ClusterShardID
	ctx      context.Context
	cancel   context.CancelFunc
	fromTgt  chan *adminservice.StreamWorkflowReplicationMessagesRequest
	broken   chan struct{}
	msgs     int
	started  bool
	stalled  bool // a slow target: Send blocks until resumed
	resumeCh chan struct{}
	// tracker model
	ids       []int64 // proxy ids of accepted tasks in order
	tasks     []*rtTask
	processed int   // number of accepted tasks processed (prefix)
	high      int64 // last accepted exclusive high watermark (0: none)
	lastAck   int64 // last inclusive low watermark this target sent (0: none)
	onSend    func(t *rtTarget, resp *adminservice.StreamWorkflowReplicationMessagesResponse)
	// every message handed to this stream, with its high watermark at that moment (grpc: a message
	// must not be modified after SendMsg, and two streams must not be handed one mutable message)
	sent     []*adminservice.StreamWorkflowReplicationMessagesResponse
	sentHigh []int64
}

func (t *rtTarget) Recv() (*adminservice.StreamWorkflowReplicationMessagesRequest, error) {
	select {
	case m, ok := <-t.fromTgt:
		if !ok {
			return nil, io.EOF
		}
		return m, nil
	case <-t.broken:
		return nil, context.Canceled
	case <-t.ctx.Done():
		return nil, t.ctx.Err()
	}
}

func (t *rtTarget) Send(resp *adminservice.StreamWorkflowReplicationMessagesResponse) error {
	select {
	case <-t.broken:
		return io.EOF
	default:
	}
	if t.stalled {
		select {
		case <-t.resumeCh:
		case <-t.broken:
			return io.EOF
		}
	}
	t.msgs++
	t.sent = append(t.sent, resp)
	t.sentHigh = append(t.sentHigh, resp.GetMessages().GetExclusiveHighWatermark())
	if m := resp.GetMessages(); m != nil {
		verifObserve("message-to-target", t.idx, len(m.ReplicationTasks), m.ExclusiveHighWatermark)
	}
	if t.onSend != nil {
		t.onSend(t, resp)
	}
	return nil
}

func (t *rtTarget) Context() context.Context { return t.ctx }

// lowWatermark is what Temporal's stream receiver acknowledges: the id of the
// first unprocessed task, else the last high watermark, else nothing (0).
func (t *rtTarget) lowWatermark() int64 {
	if t.processed < len(t.ids) {
		return t.ids[t.processed]
	}
	return t.high
}

// rtEnv wires real sender/receiver objects to the fakes.
type rtEnv struct {
	sm            ShardManager
	nSrc          int
	nTgt          int
	sources       []*rtSource
	targets       []*rtTarget
	receivers     []*proxyStreamReceiver
	senders       []*proxyStreamSender
	srcShut       []channel.ShutdownOnce
	tgtShut       []channel.ShutdownOnce
	tasks         []*rtTask
	byObj         map[*replicationv1.ReplicationTask]*rtTask
	nextWF        int
	logger        log.Logger
	lateFrom      int // targets with index >= lateFrom are connected by an explicit action
	snapshotTasks bool
	idleAction    bool // the action alphabet includes "everything idles for >1s" (keep-alives fire)
	stallable     bool // the action alphabet includes stalling / resuming a target's Send
	wmOnly        bool // restricted alphabet: sources emit watermark-only batches
	identities    bool // tasks draw (namespace id, workflow id) from a 2x2 universe instead of being all distinct
	spread        bool // restricted alphabet: tasks of a batch are spread round-robin over the targets
	fullOnly      bool // restricted alphabet: a target acks after processing nothing or everything
}

func rtNewEnv(nSrc, nTgt int) *rtEnv {
	loggers := logging.NewLoggerProvider(log.NewNoopLogger(), config.NewMockConfigProvider(config.S2SProxyConfig{}))
	sm := NewShardManager(nil, config.ShardCountConfig{}, encryption.TLSConfig{}, loggers)
	if impl, ok := sm.(*shardManagerImpl); ok {
		impl.SetupCallbacks() // what Start() does before anything else
	}
	e := &rtEnv{sm: sm, nSrc: nSrc, nTgt: nTgt, lateFrom: nTgt, byObj: map[*replicationv1.ReplicationTask]*rtTask{}, logger: log.NewNoopLogger()}
	return e
}

func (e *rtEnv) newTarget(j, inc int) *rtTarget {
	ctx, cancel := context.WithCancel(context.Background())
	return &rtTarget{env: e, idx: j, inc: inc, shard: history.ClusterShardID{ClusterID: rtTargetCluster, ShardID: int32(j + 1)},
		ctx: ctx, cancel: cancel,
		fromTgt: make(chan *adminservice.StreamWorkflowReplicationMessagesRequest, 8), broken: make(chan struct{}),
		resumeCh: make(chan struct{})}
}

func (e *rtEnv) newSource(i int) *rtSource {
	return &rtSource{env: e, idx: i, shard: history.ClusterShardID{ClusterID: rtSourceCluster, ShardID: int32(i + 1)},
		ctx:     context.Background(),
		toProxy: make(chan *adminservice.StreamWorkflowReplicationMessagesResponse, 8), broken: make(chan struct{}),
		halfClosed: make(chan struct{})}
}

// startSender runs a real proxyStreamSender for target j on its own goroutine.
func (e *rtEnv) startSender(t *rtTarget) (*proxyStreamSender, channel.ShutdownOnce) {
	snd := &proxyStreamSender{
		logger:         e.logger,
		shardManager:   e.sm,
		sourceShardID:  history.ClusterShardID{ClusterID: rtSourceCluster, ShardID: t.shard.ShardID},
		targetShardID:  t.shard,
		directionLabel: "verif",
	}
	shut := channel.NewShutdownOnce()
	go snd.Run(t, shut)
	return snd, shut
}

// startReceiver runs a real proxyStreamReceiver reading from source i.
func (e *rtEnv) startReceiver(s *rtSource) (*proxyStreamReceiver, channel.ShutdownOnce) {
	rcv := &proxyStreamReceiver{
		logger:          e.logger,
		shardManager:    e.sm,
		adminClient:     &rtAdminClient{src: s},
		localShardCount: int32(e.nTgt),
		sourceShardID:   s.shard,
		targetShardID:   history.ClusterShardID{ClusterID: rtTargetCluster, ShardID: s.shard.ShardID},
		directionLabel:  "verif",
	}
	shut := channel.NewShutdownOnce()
	go rcv.Run(shut)
	return rcv, shut
}

func (e *rtEnv) connectTarget(j int) {
	t := e.targets[j]
	t.started = true
	e.senders[j], e.tgtShut[j] = e.startSender(t)
}

func (t *rtTarget) stall() { t.stalled = true }
func (t *rtTarget) resume() {
	if t.stalled {
		t.stalled = false
		close(t.resumeCh)
		t.resumeCh = make(chan struct{})
	}
}

// emitWatermarkAgain: the source's periodic sync (same or higher watermark).
func (e *rtEnv) emitWatermarkAgain(s *rtSource) {
	e.emitBatch(s, 0)
}

func (e *rtEnv) startAll() {
	for j := 0; j < e.nTgt; j++ {
		t := e.newTarget(j, 0)
		e.targets = append(e.targets, t)
		e.senders = append(e.senders, nil)
		e.tgtShut = append(e.tgtShut, nil)
		if j < e.lateFrom {
			e.connectTarget(j)
		}
	}
	for i := 0; i < e.nSrc; i++ {
		s := e.newSource(i)
		e.sources = append(e.sources, s)
		rcv, shut := e.startReceiver(s)
		e.receivers = append(e.receivers, rcv)
		e.srcShut = append(e.srcShut, shut)
	}
}

// emitBatch makes source i emit a batch of n tasks (n == 0: watermark only)
// following Temporal's StreamSender contract: ids strictly increasing and
// above everything sent before; exclusive high watermark above the last id
// (watermark-only: not below the previous one).
func (e *rtEnv) emitBatch(s *rtSource, n int) {
	var tasks []*replicationv1.ReplicationTask
	prev := s.lastID
	if s.lastHigh-1 > prev {
		prev = s.lastHigh - 1 // ids at or above an earlier high watermark
	}
	for k := 0; k < n; k++ {
		id := verifNondetInt64("taskID")
		verifAssume(verifAnd(id > prev, id < 1<<40))
		prev = id
		var wf string
		ns := "ns"
		if e.identities {
			// tasks share namespace ids / workflow ids: 2 namespaces x 2 workflow ids
			ns, wf = verifIdentity(verifChoose("identity", 4), e.nTgt)
		} else if e.spread {
			// restricted alphabet: the k-th task of a batch goes to target k mod nTgt
			wf = verifWorkflowIDForShard(e.nextWF, k%e.nTgt+1, e.nTgt)
		} else {
			wf = verifWorkflowID(e.nextWF)
		}
		e.nextWF++
		obj := &replicationv1.ReplicationTask{
			SourceTaskId: id,
			RawTaskInfo:  &persistencespb.ReplicationTaskInfo{NamespaceId: ns, WorkflowId: wf, TaskId: id},
		}
		rec := &rtTask{orig: id, obj: obj, source: s.idx}
		if e.snapshotTasks {
			verifSnapshot(fmt.Sprintf("task-%d", len(e.tasks)), obj)
		}
		e.tasks = append(e.tasks, rec)
		e.byObj[obj] = rec
		tasks = append(tasks, obj)
	}
	high := verifNondetInt64("high")
	if n > 0 {
		verifAssume(verifAnd(high > prev, high < 1<<41))
		s.lastID = prev
	} else {
		verifAssume(verifAnd(verifAnd(high >= s.lastHigh, high > s.lastID), high < 1<<41))
	}
	s.lastHigh = high
	s.emitted++
	s.toProxy <- &adminservice.StreamWorkflowReplicationMessagesResponse{
		Attributes: &adminservice.StreamWorkflowReplicationMessagesResponse_Messages{
			Messages: &replicationv1.WorkflowReplicationMessages{ReplicationTasks: tasks, ExclusiveHighWatermark: high},
		},
	}
}

// targetAck: target j processes k more of the tasks it holds and acknowledges
// its tracker's low watermark (nothing if it has not received anything yet).
func (e *rtEnv) targetAck(t *rtTarget, k int) bool {
	t.processed += k
	if t.processed > len(t.ids) {
		t.processed = len(t.ids)
	}
	w := t.lowWatermark()
	if w == 0 {
		return false
	}
	t.lastAck = w
	t.fromTgt <- &adminservice.StreamWorkflowReplicationMessagesRequest{
		Attributes: &adminservice.StreamWorkflowReplicationMessagesRequest_SyncReplicationState{
			SyncReplicationState: &replicationv1.SyncReplicationState{InclusiveLowWatermark: w},
		},
	}
	return true
}

// trackerAccept transcribes ExecutableTaskTracker.TrackTasks for one message
// and records where each task went. It returns false (with a label) when a
// Temporal receiver would drop data or panic.
func (t *rtTarget) trackerAccept(resp *adminservice.StreamWorkflowReplicationMessagesResponse) (bool, string) {
	m := resp.GetMessages()
	if m == nil {
		return false, "non-messages-attribute"
	}
	high := m.ExclusiveHighWatermark
	if len(m.ReplicationTasks) == 0 {
		// watermark-only message: ignored unless it advances
		if high > t.high {
			t.high = high
		}
		return true, ""
	}
	if !(high > t.high) {
		return false, "message-high-watermark-not-above-previous(whole message dropped)"
	}
	last := int64(0)
	if len(t.ids) > 0 {
		last = t.ids[len(t.ids)-1]
	}
	for _, task := range m.ReplicationTasks {
		if !(task.SourceTaskId > last) {
			return false, "task-id-not-above-last(task dropped)"
		}
		last = task.SourceTaskId
		t.ids = append(t.ids, task.SourceTaskId)
		rec := t.env.byObj[task]
		t.tasks = append(t.tasks, rec)
		if rec != nil {
			rec.seenCount++
			rec.sentOn = t
			rec.proxyID = task.SourceTaskId
		}
	}
	if !(high > last) {
		return false, "high-watermark-not-above-last-task(tracker panics)"
	}
	t.high = high
	return true, ""
}

// confirmed: the task was forwarded and the target stream it was forwarded on
// has acknowledged a watermark above its proxy id.
func (e *rtEnv) confirmed(rec *rtTask) bool {
	if rec.sentOn == nil {
		return false
	}
	return rec.sentOn.lastAck > rec.proxyID
}

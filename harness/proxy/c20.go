package proxy

import (
	"sync/atomic"

	"go.temporal.io/server/common/log/tag"
)

// ---------------------------------------------------------------------------
// C20 — no stream-open metadata can wedge or crash stream service.
//
// verifHarness_C20_observer: the stream observer's counter table with an
// arbitrary current length, any int32 index and delta; afterwards a
// well-formed report must go through (not block on the observer lock).

type c20Logger struct{}

func (c20Logger) Warn(msg string, tags ...tag.Tag) {}
func (c20Logger) Info(msg string, tags ...tag.Tag) {}

func verifHarness_C20_observer() {
	n := verifNondetInt("tableLen")
	verifAssume(verifAnd(n >= 1, n <= 1<<30))
	obs := NewReplicationStreamObserver(c20Logger{})
	obs.streamActive = c20Table(n)
	idx := verifNondetInt32("idx")
	delta := verifNondetInt32("delta")
	verifReachIf(idx >= int32(n), "grow-branch")
	verifReachIf(idx < 0, "negative-index")

	panicked := false
	func() {
		defer func() {
			if r := recover(); r != nil {
				panicked = true // log.CapturePanic in the stream handler does the same
			}
		}()
		obs.ReportStreamValue(idx, delta)
	}()
	verifObserve("report", panicked)
	if panicked {
		verifReach("report-panicked")
	}
	verifAssert(!verifMutexHeld(&obs.streamGrowLock), "observer-lock-released-on-every-exit")
	verifAssert(!panicked, "report-never-panics")
	// a following well-formed stream is served
	obs.ReportStreamValue(3, 1)
	verifReach("follow-up-served")
}

func c20Table(n int) []atomic.Int32 { return verifAbstractSlice_atomicInt32(n) }

// In the engine: a slice of symbolic length n whose contents are unmodelled.
func verifAbstractSlice_atomicInt32(n int) []atomic.Int32 {
	if n > 1<<24 {
		n = 1 << 24
	}
	return make([]atomic.Int32, n)
}

package proxy

import (
	"context"
	"io"
	"sync/atomic"

	"go.temporal.io/server/api/adminservice/v1"
	"go.temporal.io/server/client/history"
	"go.temporal.io/server/common/log/tag"
	"google.golang.org/grpc/metadata"

	"github.com/temporalio/s2s-proxy/common"
	"github.com/temporalio/s2s-proxy/config"
)

// ---------------------------------------------------------------------------
// C20 — no stream-open metadata can wedge or crash stream service.
//
// verifHarness_C20_observer: the stream observer's counter table with an
// arbitrary current length, any int32 index and delta; afterwards a
// well-formed report must go through (not block on the observer lock).

type c20Logger struct{}

func (c20Logger) Warn(msg string, tags ...tag.Tag) {}
func (c20Logger) Info(msg string, tags ...tag.Tag) {}

func verifHarness_C20_observer() {
	n := verifNondetInt("tableLen")
	verifAssume(verifAnd(n >= 1, n <= 1<<30))
	obs := NewReplicationStreamObserver(c20Logger{})
	obs.streamActive = c20Table(n)
	idx := verifNondetInt32("idx")
	delta := verifNondetInt32("delta")
	verifReachIf(idx >= int32(n), "grow-branch")
	verifReachIf(idx < 0, "negative-index")

	panicked := false
	func() {
		defer func() {
			if r := recover(); r != nil {
				panicked = true // log.CapturePanic in the stream handler does the same
			}
		}()
		obs.ReportStreamValue(idx, delta)
	}()
	verifObserve("report", panicked)
	if panicked {
		verifReach("report-panicked")
	}
	verifAssert(!verifMutexHeld(&obs.streamGrowLock), "observer-lock-released-on-every-exit")
	verifAssert(!panicked, "report-never-panics")

	// a following well-formed stream is served
	obs.ReportStreamValue(3, 1)
	verifReach("follow-up-served")
}

// the counter table after an arbitrary history of grows: any length, any spare capacity
func c20Table(n int) []atomic.Int32 {
	c := verifNondetInt("tableCap")
	verifAssume(verifAnd(c >= n, c <= 1<<30))
	verifReachIf(c > n, "table-with-spare-capacity")
	return verifAbstractSlice_atomicInt32(n, c)
}

// In the engine: a slice of symbolic length n and capacity c whose contents are unmodelled.
func verifAbstractSlice_atomicInt32(n, c int) []atomic.Int32 {
	if n > 1<<24 {
		n = 1 << 24
	}
	if c > 1<<24 {
		c = 1 << 24
	}
	if c < n {
		c = n
	}
	return make([]atomic.Int32, n, c)
}

// ---------------------------------------------------------------------------
// verifHarness_C20_handler: the real stream handler (metadata decode, observer
// bookkeeping, panic capture, all three modes) with arbitrary ids in the
// stream-open metadata, followed by a well-formed stream on the same server.

func c20MD(kind int, label string) string {
	switch kind {
	case 0:
		return verifNumString(verifNondetInt64(label)) // any decimal integer that fits an int64
	case 1:
		return "" // missing
	case 2:
		return "abc" // not a number
	default:
		return "99999999999999999999" // out of int64 range
	}
}

func c20Serve(srv *adminServiceProxyServer, mode int, cc, cs, sc, ss string) (returned bool, err error) {
	md := metadata.New(map[string]string{})
	md.Set(history.MetadataKeyClientClusterID, cc)
	md.Set(history.MetadataKeyClientShardID, cs)
	md.Set(history.MetadataKeyServerClusterID, sc)
	md.Set(history.MetadataKeyServerShardID, ss)
	ctx, cancel := context.WithCancel(metadata.NewIncomingContext(context.Background(), md))
	defer cancel()
	done := false
	var rerr error
	if mode == 2 {
		// routing mode: the initiator's stream ends at once; the reverse stream ends when half-closed
		t := &rtTarget{ctx: ctx, cancel: cancel, fromTgt: make(chan *adminservice.StreamWorkflowReplicationMessagesRequest, 1),
			broken: make(chan struct{}), resumeCh: make(chan struct{})}
		close(t.fromTgt) // Recv: io.EOF
		go func() {
			rerr = srv.StreamWorkflowReplicationMessages(t)
			done = true
		}()
	} else {
		ini := &fwInit{ctx: ctx, in: make(chan c06Event, 1)}
		ini.in <- c06Event{err: io.EOF}
		go func() {
			rerr = srv.StreamWorkflowReplicationMessages(ini)
			done = true
		}()
	}
	verifQuiesce()
	verifQuiesce()
	cancel()
	verifQuiesce()
	return done, rerr
}

func verifHarness_C20_handler() {
	verifConfig("preempt", 0)
	mode := verifChoose("mode", 4) // 0 default, 1 LCM, 2 routing, 3 LCM with a shard count left out of the configuration
	n := verifNondetInt("tableLen")
	verifAssume(verifAnd(n >= 1, n <= 1<<30))
	obs := NewReplicationStreamObserver(c20Logger{})
	obs.streamActive = c20Table(n)
	balance := 0
	calls := 0
	var idxs []int32
	report := func(idx int32, v int32) {
		calls++
		balance += int(v)
		idxs = append(idxs, idx)
		obs.ReportStreamValue(idx, v)
	}
	var scc config.ShardCountConfig
	var lcm LCMParameters
	var rp RoutingParameters
	switch mode {
	case 1:
		scc = config.ShardCountConfig{Mode: config.ShardCountLCM, LocalShardCount: 4, RemoteShardCount: 6}
		lcm = LCMParameters{LCM: 12, TargetShardCount: 4}
	case 2:
		scc = config.ShardCountConfig{Mode: config.ShardCountRouting, LocalShardCount: 2, RemoteShardCount: 3}
		rp = RoutingParameters{RoutingLocalShardCount: 2, DirectionLabel: "verif"}
	case 3:
		// what getLCMParameters hands the inbound server when localShardCount is missing: every stream's
		// shard mapping then divides by zero, which must stay a per-stream error
		scc = config.ShardCountConfig{Mode: config.ShardCountLCM, LocalShardCount: 0, RemoteShardCount: 6}
		lcm = LCMParameters{LCM: common.LCM(0, 6), TargetShardCount: 0}
		verifReach("lcm-mode-with-a-missing-count")
	}
	e := rtNewEnv(1, 1)
	src := e.newSource(0)
	src.halfCloseEnds = true
	fsrc := &fwSrc{in: make(chan c06Event, 1)}
	fsrc.in <- c06Event{err: io.EOF}
	srv := NewAdminServiceProxyServer("verif", &fwAdminClient{src: fsrc}, &rtAdminClient{src: src}, AdminServiceOverrides{}, []string{"l"},
		report, scc, lcm, rp, wrLoggers(), e.sm, context.Background()).(*adminServiceProxyServer)

	// first stream: arbitrary / malformed ids
	kinds := [4]int{}
	for i := range kinds {
		if verifChoose("malformed-field", 5) == i+1 {
			kinds[i] = verifChoose("malformation", 3) + 1
		}
	}
	returned, err := c20Serve(srv, mode, c20MD(kinds[0], "clientCluster"), c20MD(kinds[1], "clientShard"), c20MD(kinds[2], "serverCluster"), c20MD(kinds[3], "serverShard"))
	verifReach("first-stream-done")
	verifAssert(returned, "handler-returns-for-every-id")
	verifAssert(!verifMutexHeld(&obs.streamGrowLock), "observer-lock-released-after-stream")
	verifAssert(balance == 0, "stream-bookkeeping-balanced")
	// ... per shard: a stream is taken off the books under the shard it was entered under (another
	// shard's counter belongs to another stream)
	if len(idxs) == 2 {
		verifAssert(idxs[0] == idxs[1], "stream-counted-and-uncounted-under-the-same-shard")
	}
	verifAssert(len(idxs) == 0 || len(idxs) == 2, "stream-reported-to-the-observer-zero-or-two-times")
	if err != nil {
		verifReach("rejected-with-error")
	} else {
		verifReach("served")
		// "either serves the stream or rejects it with an error": a nil result means the stream was really
		// taken on (the outgoing stream was opened / the routing receiver opened its source stream)
		verifAssert(fsrc.opened || src.opened, "stream-without-error-was-actually-served")
	}
	// a following well-formed stream is served normally
	src2 := e.newSource(0)
	src2.halfCloseEnds = true
	srv.adminClientReverse = &rtAdminClient{src: src2}
	fsrc2 := &fwSrc{in: make(chan c06Event, 1)}
	fsrc2.in <- c06Event{err: io.EOF}
	srv.adminClient = &fwAdminClient{src: fsrc2}
	before := calls
	returned2, err2 := c20Serve(srv, mode, "2", "1", "1", "3")
	verifAssert(returned2, "following-well-formed-stream-is-served")
	if mode == 3 {
		// no stream can be mapped with this configuration: each one is rejected, none takes the process down
		verifAssert(err2 != nil, "unmappable-stream-is-rejected-with-an-error")
		verifAssert(balance == 0, "following-stream-bookkeeping-balanced")
		verifAssert(!verifMutexHeld(&obs.streamGrowLock), "observer-lock-released-after-following-stream")
		return
	}
	verifAssert(err2 == nil, "following-well-formed-stream-has-no-error")
	verifAssert(calls == before+2 && balance == 0, "following-stream-bookkeeping-balanced")
	verifAssert(!verifMutexHeld(&obs.streamGrowLock), "observer-lock-released-after-following-stream")
	verifReach("follow-up-stream-served")
}


// verifHarness_C20_loggerTick: the periodic logger (Start -> PrintActiveStreams) reads the counter table
// under the same lock that every stream open and close takes; whatever size an earlier huge shard id
// made the table grow to (it never shrinks), the tick releases the lock and later streams are counted.
func verifHarness_C20_loggerTick() {
	verifConfig("maxvisits", 4000000)
	obs := NewReplicationStreamObserver(c20Logger{})
	n := 1024
	if verifChoose("table", 2) == 1 {
		n = 1<<20 + 8 // after a stream with a shard id around 930000
		verifReach("huge-table")
	}
	obs.streamActive = make([]atomic.Int32, n)
	obs.ReportStreamValue(3, 1)
	_ = obs.PrintActiveStreams()
	verifReach("logger-tick")
	verifAssert(!verifMutexHeld(&obs.streamGrowLock), "observer-lock-released-after-the-logger-tick")
	obs.ReportStreamValue(5, 1)
	obs.ReportStreamValue(3, -1)
	verifReach("follow-up-served")
}

package proxy

import (
	"context"
	"errors"

	namespacepb "go.temporal.io/api/namespace/v1"
	"go.temporal.io/api/workflowservice/v1"
	"google.golang.org/grpc"

	"github.com/temporalio/s2s-proxy/auth"
)

// C16 (response filtering): ListNamespaces returns exactly the allowed subset, in order,
// also when the backend returned an error with partial data.

type c16Backend struct {
	workflowservice.WorkflowServiceClient
	resp *workflowservice.ListNamespacesResponse
	err  error
}

func (b *c16Backend) ListNamespaces(ctx context.Context, in *workflowservice.ListNamespacesRequest, opts ...grpc.CallOption) (*workflowservice.ListNamespacesResponse, error) {
	return b.resp, b.err
}

func verifHarness_C16_listNamespaces() {
	universe := []string{"ns-a", "ns-b", "ns-x"}
	allowA := verifNondetBool("allow:ns-a")
	allowB := verifNondetBool("allow:ns-b")
	var access *auth.AccessControl
	shape := verifChoose("list-shape", 3)
	switch shape {
	case 0: // policy with a namespace list (arbitrary subset of {ns-a, ns-b})
		access = auth.NewAccesControl([]string{verifIteString(allowA, "ns-a", "~none-1"), verifIteString(allowB, "ns-b", "~none-2")})
	case 1: // policy with an empty list = unrestricted
		access = auth.NewAccesControl(nil)
	case 2: // no policy
	}
	n := verifChoose("backend-namespaces", 4)
	var names []string
	resp := &workflowservice.ListNamespacesResponse{}
	for k := 0; k < n; k++ {
		name := universe[verifChoose("name", len(universe))]
		names = append(names, name)
		resp.Namespaces = append(resp.Namespaces, &workflowservice.DescribeNamespaceResponse{NamespaceInfo: &namespacepb.NamespaceInfo{Name: name}})
	}
	be := &c16Backend{resp: resp}
	if verifChoose("backend-error", 2) == 1 {
		be.err = errors.New("partial failure")
	}
	srv := NewWorkflowServiceProxyServer("verif", be, access, wrLoggers()).(*workflowServiceProxyServer)
	got, err := srv.ListNamespaces(context.Background(), &workflowservice.ListNamespacesRequest{})
	verifAssert((err != nil) == (be.err != nil), "backend-error-is-propagated")
	verifAssert(got != nil, "response-returned")
	if got == nil {
		return
	}
	// expected: the allowed subsequence, in order
	i := 0
	for _, name := range names {
		ok := true
		if shape == 0 {
			ok = verifOr(verifAnd(name == "ns-a", allowA), verifAnd(name == "ns-b", allowB))
		}
		if ok { // forks on the symbolic allow bits; the real filter forked the same way
			verifAssert(i < len(got.Namespaces), "allowed-namespace-kept")
			if i < len(got.Namespaces) {
				verifAssert(got.Namespaces[i].NamespaceInfo.Name == name, "allowed-namespaces-kept-in-order")
			}
			i++
		} else {
			verifReach("namespace-filtered-out")
		}
	}
	verifAssert(len(got.Namespaces) == i, "no-disallowed-namespace-returned")
}

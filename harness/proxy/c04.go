package proxy

import (
	"context"

	"go.temporal.io/server/client/history"
)

// ---------------------------------------------------------------------------
// C04 — stream failures never turn unconfirmed tasks into acknowledged ones.
//
// Every cluster shard is connected through the real streamRouting (paired
// sender + reverse receiver on one shutdown signal). Breaks and reconnections
// are ordinary members of the symbolic action sequence.

type rtConn struct {
	side  int // 0: source-cluster shard, 1: target-cluster shard
	idx   int
	srv   *rtTarget // the server stream of the connection (the initiator's end)
	rev   *rtSource // the reverse client stream the proxy opens to the same shard
	done  bool
	alive bool
}

func (e *rtEnv) connect(side, idx, inc int) *rtConn {
	var shard, peer history.ClusterShardID
	var localCount int32
	if side == 0 {
		shard = history.ClusterShardID{ClusterID: rtSourceCluster, ShardID: int32(idx + 1)}
		peer = history.ClusterShardID{ClusterID: rtTargetCluster, ShardID: int32(idx%e.nTgt + 1)}
		localCount = int32(e.nTgt) // tasks read from a source shard are routed over the target cluster's shards
	} else {
		shard = history.ClusterShardID{ClusterID: rtTargetCluster, ShardID: int32(idx + 1)}
		peer = history.ClusterShardID{ClusterID: rtSourceCluster, ShardID: int32(idx%e.nSrc + 1)}
		localCount = int32(e.nSrc)
	}
	ctx, cancel := context.WithCancel(context.Background())
	srv := e.newTarget(idx, inc)
	srv.shard = shard
	srv.ctx, srv.cancel = ctx, cancel
	srv.started = true
	rev := e.newSource(idx)
	rev.shard = shard
	rev.halfCloseEnds = true
	c := &rtConn{side: side, idx: idx, srv: srv, rev: rev, alive: true}
	go func() {
		_ = streamRouting(e.logger, srv, peer, shard, e.sm, &rtAdminClient{src: rev},
			RoutingParameters{RoutingLocalShardCount: localCount, DirectionLabel: "verif"}, context.Background())
		c.done = true
		cancel() // gRPC cancels the server stream's context when the handler returns
	}()
	return c
}

func (e *rtEnv) breakConn(c *rtConn) {
	c.alive = false
	close(c.srv.broken)
	close(c.rev.broken)
}

func verifHarness_C04_breaks() {
	nSrc := verifParam("sources", 1)
	nTgt := verifParam("targets", 2)
	nAct := verifParam("actions", 5)
	maxBatch := verifParam("maxbatch", 2)
	maxBreaks := verifParam("breaks", 1)
	srcBreaks := verifParam("srcbreaks", 1)
	tgtBreaks := verifParam("tgtbreaks", 1)
	verifConfig("preempt", verifParam("preempt", 0))
	verifConfig("maporder", verifParam("maporder", 0))
	e := rtNewEnv(nSrc, nTgt)
	e.spread = verifParam("spread", 0) == 1
	e.fullOnly = verifParam("fullonly", 0) == 1
	srcConns := make([]*rtConn, nSrc)
	tgtConns := make([]*rtConn, nTgt)
	srcInc := make([]int, nSrc)
	tgtInc := make([]int, nTgt)
	e.sources = make([]*rtSource, nSrc)
	e.targets = make([]*rtTarget, nTgt)
	for j := 0; j < nTgt; j++ {
		tgtConns[j] = e.connect(1, j, 0)
		e.targets[j] = tgtConns[j].srv
		e.targets[j].onSend = c01OnSend
	}
	for i := 0; i < nSrc; i++ {
		srcConns[i] = e.connect(0, i, 0)
		e.sources[i] = srcConns[i].rev
		e.sources[i].onAck = c01OnAck
	}
	verifQuiesce()
	breaks := 0
	for step := 0; step < nAct; step++ {
		nSrcActs := nSrc * (maxBatch + 1)
		a := verifChoose("action", nSrcActs+nTgt+nTgt+nSrc)
		switch {
		case a < nSrcActs:
			i, n := a/(maxBatch+1), a%(maxBatch+1)
			if !srcConns[i].alive {
				verifAssume(false)
			}
			if e.spread && n != 0 && n != maxBatch {
				verifAssume(false)
			}
			if n == 0 {
				verifAction("watermark")
			} else {
				verifAction("batch")
			}
			e.emitBatch(e.sources[i], n)
		case a < nSrcActs+nTgt:
			j := a - nSrcActs
			if !tgtConns[j].alive {
				verifAssume(false)
			}
			t := e.targets[j]
			k := 0
			if left := len(t.ids) - t.processed; left > 0 {
				if e.fullOnly {
					k = verifChoose("processall", 2) * left
				} else {
					k = verifChoose("process", left+1)
				}
			}
			if !e.targetAck(t, k) {
				verifAssume(false)
			}
			verifAction("target-ack")
		case a < nSrcActs+2*nTgt:
			// break a live target stream, or reconnect a broken one
			j := a - nSrcActs - nTgt
			if tgtConns[j].alive {
				if breaks >= maxBreaks || tgtBreaks == 0 {
					verifAssume(false)
				}
				breaks++
				verifAction("break-target")
				e.breakConn(tgtConns[j])
			} else {
				verifAction("reconnect-target")
				tgtInc[j]++
				tgtConns[j] = e.connect(1, j, tgtInc[j])
				e.targets[j] = tgtConns[j].srv
				e.targets[j].onSend = c01OnSend
				verifReach("target-reconnected")
			}
		default:
			i := a - nSrcActs - 2*nTgt
			if srcConns[i].alive {
				if breaks >= maxBreaks || srcBreaks == 0 {
					verifAssume(false)
				}
				breaks++
				verifAction("break-source")
				e.breakConn(srcConns[i])
			} else {
				verifAction("reconnect-source")
				srcInc[i]++
				old := e.sources[i]
				srcConns[i] = e.connect(0, i, srcInc[i])
				ns := srcConns[i].rev
				// the source carries on from where it was (see DESIGN: resends are not modelled)
				ns.lastID, ns.lastHigh = old.lastID, old.lastHigh
				ns.onAck = c01OnAck
				e.sources[i] = ns
				verifReach("source-reconnected")
			}
		}
		verifQuiesce()
		verifQuiesce()
	}
}

// verifHarness_C04_doubleBreak: a phased schedule with two failures — one target stream and the
// source stream both break (either order) and reconnect (either order), with acknowledgements in
// between — after a short symbolic prefix and followed by a short symbolic suffix.
func verifHarness_C04_doubleBreak() {
	nTgt := verifParam("targets", 2)
	pre := verifParam("prefix", 2)
	post := verifParam("suffix", 1)
	maxBatch := nTgt
	verifConfig("preempt", 0)
	e := rtNewEnv(1, nTgt)
	e.spread, e.fullOnly = true, true
	e.sources = make([]*rtSource, 1)
	e.targets = make([]*rtTarget, nTgt)
	tgtConns := make([]*rtConn, nTgt)
	for j := 0; j < nTgt; j++ {
		tgtConns[j] = e.connect(1, j, 0)
		e.targets[j] = tgtConns[j].srv
		e.targets[j].onSend = c01OnSend
	}
	srcConn := e.connect(0, 0, 0)
	e.sources[0] = srcConn.rev
	e.sources[0].onAck = c01OnAck
	verifQuiesce()
	step := func(label string) {
		// one action of the restricted alphabet: watermark, full batch, or a target acking nothing/everything
		a := verifChoose(label, 2+nTgt)
		switch {
		case a == 0:
			if !srcConn.alive {
				verifAssume(false)
			}
			verifAction("watermark")
			e.emitBatch(e.sources[0], 0)
		case a == 1:
			if !srcConn.alive {
				verifAssume(false)
			}
			verifAction("batch")
			e.emitBatch(e.sources[0], maxBatch)
		default:
			j := a - 2
			if !tgtConns[j].alive {
				verifAssume(false)
			}
			t := e.targets[j]
			k := 0
			if left := len(t.ids) - t.processed; left > 0 {
				k = verifChoose("processall", 2) * left
			}
			if !e.targetAck(t, k) {
				verifAssume(false)
			}
			verifAction("target-ack")
		}
		verifQuiesce()
		verifQuiesce()
	}
	for i := 0; i < pre; i++ {
		step("prefix-action")
	}
	j := verifChoose("broken-target", nTgt)
	breakT := func() { verifAction("break-target"); e.breakConn(tgtConns[j]); verifQuiesce(); verifQuiesce() }
	breakS := func() { verifAction("break-source"); e.breakConn(srcConn); verifQuiesce(); verifQuiesce() }
	reconT := func() {
		verifAction("reconnect-target")
		tgtConns[j] = e.connect(1, j, 1)
		e.targets[j] = tgtConns[j].srv
		e.targets[j].onSend = c01OnSend
		verifQuiesce()
		verifQuiesce()
	}
	reconS := func() {
		verifAction("reconnect-source")
		old := e.sources[0]
		srcConn = e.connect(0, 0, 1)
		ns := srcConn.rev
		ns.lastID, ns.lastHigh = old.lastID, old.lastHigh
		ns.onAck = c01OnAck
		e.sources[0] = ns
		verifQuiesce()
		verifQuiesce()
	}
	if verifChoose("break-order", 2) == 0 {
		breakT()
		breakS()
	} else {
		breakS()
		breakT()
	}
	if verifChoose("reconnect-order", 2) == 0 {
		reconT()
		if verifChoose("ack-between", 2) == 1 {
			if e.targetAck(e.targets[j], 0) {
				verifAction("target-ack")
				verifQuiesce()
				verifQuiesce()
			}
		}
		reconS()
	} else {
		reconS()
		reconT()
	}
	verifReach("both-reconnected")
	for i := 0; i < post; i++ {
		step("suffix-action")
	}
}

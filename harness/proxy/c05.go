package proxy

import (
	"go.temporal.io/server/client/history"
)

// ---------------------------------------------------------------------------
// C05 — the proxy-id ring buffer maps acknowledgements back exactly.
//
// Harness (i): one inductive step from an arbitrary valid buffer state.
// Harness (ii): operation histories from the empty buffer against a plain
// slice model.

const c05MaxAbs = 10 // upper bound on the abstract length inspected by the oracle

func c05Get(b *proxyIDRingBuffer, i int) proxyIDMapping {
	return b.entries[(b.head+i)%len(b.entries)]
}

func c05IsHole(m proxyIDMapping) bool {
	return verifAnd(m.sourceShard.ClusterID == 0, m.sourceShard.ShardID == 0)
}

func c05SameMapping(a, b proxyIDMapping) bool {
	return verifAnd(verifAnd(a.sourceShard.ClusterID == b.sourceShard.ClusterID,
		a.sourceShard.ShardID == b.sourceShard.ShardID), a.sourceTask == b.sourceTask)
}

func c05NondetShard(label string) history.ClusterShardID {
	c := verifNondetInt32(label + ".cluster")
	s := verifNondetInt32(label + ".shard")
	verifAssume(verifAnd(c >= 0, c <= 2))
	verifAssume(verifAnd(s >= 0, s <= 2))
	return history.ClusterShardID{ClusterID: c, ShardID: s}
}

// c05ArbitraryState builds a buffer of capacity C with symbolic head, size,
// start id and contents, constrained only by the representation invariant.
func c05ArbitraryState(C int) (*proxyIDRingBuffer, []proxyIDMapping, int, int, int64) {
	b := &proxyIDRingBuffer{entries: make([]proxyIDMapping, C)}
	head := verifNondetInt("head")
	size := verifNondetInt("size")
	start := verifNondetInt64("start")
	verifAssume(verifAnd(head >= 0, head < C))
	verifAssume(verifAnd(size >= 0, size <= C))
	verifAssume(verifAnd(start >= 1, start < 1<<40))
	pre := make([]proxyIDMapping, C)
	for i := 0; i < C; i++ {
		pre[i] = proxyIDMapping{sourceShard: c05NondetShard("e"), sourceTask: verifNondetInt64("e.task")}
		b.entries[i] = pre[i]
	}
	b.head, b.size, b.startProxyID = head, size, start
	b.maxSize = size
	return b, pre, head, size, start
}

// abstract element i of the pre-state
func c05PreAbs(pre []proxyIDMapping, head, i int) proxyIDMapping {
	return pre[(head+i)%len(pre)]
}

func c05CheckInvariant(b *proxyIDRingBuffer, label string) {
	verifAssert(len(b.entries) >= 1, label+":cap>=1")
	verifAssert(verifAnd(b.head >= 0, b.head < len(b.entries)), label+":head-in-range")
	verifAssert(verifAnd(b.size >= 0, b.size <= len(b.entries)), label+":size-in-range")
}

func verifHarness_C05_step() {
	maxCap := verifParam("maxcap", 4)
	C := verifChoose("cap", maxCap) + 1
	b, pre, head, size, start := c05ArbitraryState(C)
	op := verifChoose("op", 3)
	switch op {
	case 0:
		verifAction("append")
		c05StepAppend(b, pre, head, size, start)
	case 1:
		verifAction("aggregate")
		c05StepAggregate(b, pre, head, size, start)
	case 2:
		verifAction("discard")
		c05StepDiscard(b, pre, head, size, start)
	}
}

func c05StepAppend(b *proxyIDRingBuffer, pre []proxyIDMapping, head, size int, start int64) {
	C := len(pre)
	gap := verifChoose("gap", 3) // 0 = contiguous; 1,2 = gapped proxy ids
	p := verifNondetInt64("proxyID")
	if size == 0 {
		verifAssume(verifAnd(p >= 1, p < 1<<40))
	} else {
		verifAssume(p == start+int64(size)+int64(gap))
	}
	sh := c05NondetShard("new")
	verifAssume(verifNot(verifAnd(sh.ClusterID == 0, sh.ShardID == 0))) // real shards are not (0,0)
	task := verifNondetInt64("new.task")
	verifReachIf(verifAnd(head != 0, size == C), "grow-while-wrapped")
	verifReachIf(verifAnd(gap > 0, size > 0), "gap-fill")

	b.Append(p, sh, task)
	verifObserve("append", b.head, b.size, len(b.entries), b.startProxyID)

	c05CheckInvariant(b, "append")
	if size == 0 {
		verifAssert(b.size == 1, "append:size-from-empty")
		verifAssert(b.startProxyID == p, "append:start-from-empty")
		verifAssert(c05SameMapping(c05Get(b, 0), proxyIDMapping{sourceShard: sh, sourceTask: task}), "append:entry-from-empty")
		return
	}
	verifAssert(b.size == size+gap+1, "append:size")
	verifAssert(b.startProxyID == start, "append:start-unchanged")
	for i := 0; i < c05MaxAbs; i++ {
		if i < size {
			verifAssert(c05SameMapping(c05Get(b, i), c05PreAbs(pre, head, i)), "append:old-entries-preserved-in-order")
		} else if i < size+gap {
			verifAssert(c05IsHole(c05Get(b, i)), "append:gap-is-hole")
		} else if i == size+gap {
			verifAssert(c05SameMapping(c05Get(b, i), proxyIDMapping{sourceShard: sh, sourceTask: task}), "append:new-entry-last")
		}
	}
}

func c05StepAggregate(b *proxyIDRingBuffer, pre []proxyIDMapping, head, size int, start int64) {
	w := verifNondetInt64("watermark")
	verifReachIf(verifAnd(size > 0, w < start), "watermark-below-range")
	verifReachIf(verifAnd(size > 0, verifAnd(w >= start, w < start+int64(size)-1)), "watermark-inside-range")
	verifReachIf(verifAnd(size > 0, w >= start+int64(size)), "watermark-above-range")

	res, count := b.AggregateUpTo(w)
	verifObserve("aggregate", count, len(res))

	// expected count
	exp := 0
	if size > 0 && w >= start {
		d := w - start + 1
		if d > int64(size) {
			exp = size
		} else {
			exp = int(d)
		}
	}
	verifAssert(count == exp, "aggregate:count")
	c05CheckAggregation(res, pre, head, exp, "aggregate")
	// aggregation does not modify the buffer
	verifAssert(verifAnd(verifAnd(b.head == head, b.size == size), b.startProxyID == start), "aggregate:state-unchanged")
	for i := 0; i < len(pre); i++ {
		verifAssert(c05SameMapping(b.entries[i], pre[i]), "aggregate:entries-unchanged")
	}
}

// c05CheckAggregation: res must be exactly "per shard, max task among the
// first n abstract entries that are not holes".
func c05CheckAggregation(res map[history.ClusterShardID]int64, pre []proxyIDMapping, head, n int, label string) {
	// (1) every covered entry is dominated by the map
	for j := 0; j < n; j++ {
		e := c05PreAbs(pre, head, j)
		if c05IsHole(e) {
			continue
		}
		v, ok := res[e.sourceShard]
		verifAssert(ok, label+":covered-shard-present")
		verifAssert(v >= e.sourceTask, label+":value-is-upper-bound")
	}
	// (2) every key is justified by a covered entry attaining the value
	for k, v := range res {
		found := false
		for j := 0; j < n; j++ {
			e := c05PreAbs(pre, head, j)
			hit := verifAnd(verifNot(c05IsHole(e)), verifAnd(verifAnd(e.sourceShard.ClusterID == k.ClusterID, e.sourceShard.ShardID == k.ShardID), e.sourceTask == v))
			found = verifOr(found, hit)
		}
		verifAssert(found, label+":value-attained-by-covered-entry")
	}
}

func c05StepDiscard(b *proxyIDRingBuffer, pre []proxyIDMapping, head, size int, start int64) {
	n := verifNondetInt("discard")
	verifReachIf(verifAnd(n > size, size > 0), "discard-more-than-size")
	b.Discard(n)
	verifObserve("discard", b.head, b.size, b.startProxyID)
	c05CheckInvariant(b, "discard")
	m := 0
	if n > 0 {
		m = n
		if m > size {
			m = size
		}
	}
	verifAssert(b.size == size-m, "discard:size")
	if m == 0 {
		verifAssert(verifAnd(b.head == head, b.startProxyID == start), "discard:noop-unchanged")
	} else {
		verifAssert(b.startProxyID == start+int64(m), "discard:start-advanced")
	}
	verifAssert(len(b.entries) == len(pre), "discard:capacity-unchanged")
	for i := 0; i < c05MaxAbs; i++ {
		if i < size-m {
			verifAssert(c05SameMapping(c05Get(b, i), c05PreAbs(pre, head, i+m)), "discard:remaining-entries-shifted")
		}
	}
}

// ---------------------------------------------------------------------------
// (ii) histories from the empty buffer against a slice model

func verifHarness_C05_history() {
	nops := verifParam("ops", 6)
	cap0 := verifChoose("cap0", 2) + 1
	b := newProxyIDRingBuffer(cap0)
	var model []proxyIDMapping
	var mstart int64
	next := int64(1) // next proxy id the allocator would hand out
	for step := 0; step < nops; step++ {
		// ackonly=1: appends and acknowledgements only (what recvAck does), no free-standing Discard
		switch verifChoose("op", 3-verifParam("ackonly", 0)) {
		case 0:
			verifAction("append")
			gap := 0
			if len(model) > 0 {
				gap = verifChoose("gap", 2)
			}
			p := next + int64(gap)
			sh := c05NondetShard("new")
			verifAssume(verifNot(verifAnd(sh.ClusterID == 0, sh.ShardID == 0)))
			task := verifNondetInt64("new.task")
			wrapped := b.head != 0
			full := b.size == len(b.entries)
			if wrapped && full {
				verifReach("grow-while-wrapped")
			}
			if b.head+b.size > len(b.entries) {
				verifReach("wrap")
			}
			b.Append(p, sh, task)
			if len(model) == 0 {
				mstart = p
			}
			for g := 0; g < gap; g++ {
				model = append(model, proxyIDMapping{})
			}
			model = append(model, proxyIDMapping{sourceShard: sh, sourceTask: task})
			next = p + 1
		case 1:
			verifAction("ack")
			// what recvAck does: aggregate, then discard what was aggregated
			w := verifNondetInt64("watermark")
			res, count := b.AggregateUpTo(w)
			exp := 0
			if len(model) > 0 && w >= mstart {
				d := w - mstart + 1
				if d > int64(len(model)) {
					exp = len(model)
				} else {
					exp = int(d)
				}
			}
			verifAssert(count == exp, "history:aggregate-count")
			c05CheckAggregation(res, model, 0, exp, "history")
			b.Discard(count)
			model = model[exp:]
			mstart += int64(exp)
		case 2:
			verifAction("discard")
			n := verifChoose("n", 4) - 1 // -1..2
			b.Discard(n)
			m := 0
			if n > 0 {
				m = n
				if m > len(model) {
					m = len(model)
				}
			}
			model = model[m:]
			mstart += int64(m)
		}
		c05CheckInvariant(b, "history")
		verifAssert(b.size == len(model), "history:size")
		if len(model) > 0 {
			verifAssert(b.startProxyID == mstart, "history:start")
		}
		for i := 0; i < len(model); i++ {
			verifAssert(c05SameMapping(c05Get(b, i), model[i]), "history:entries-match-model")
		}
	}
}

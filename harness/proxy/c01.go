package proxy

import (
	"time"

	"go.temporal.io/server/api/adminservice/v1"
)

// ---------------------------------------------------------------------------
// C01 — routing never acknowledges a task the target has not confirmed.

func c01OnAck(s *rtSource, a int64) {
	e := s.env
	verifReach("ack-sent-to-source")
	for _, rec := range e.tasks {
		if rec.source != s.idx {
			continue
		}
		verifAssert(verifImplies(rec.orig < a, e.confirmed(rec)), "ack-covers-only-confirmed-tasks")
	}
}

func c01OnSend(t *rtTarget, resp *adminservice.StreamWorkflowReplicationMessagesResponse) {
	t.trackerAccept(resp)
}

// rtRunActions drives the symbolic environment schedule.
func rtRunActions(e *rtEnv, nActions int, maxBatch int) {
	for step := 0; step < nActions; step++ {
		nSrcActs := e.nSrc * (maxBatch + 1)
		nActs := nSrcActs + e.nTgt
		if e.stallable {
			nActs += e.nTgt
		}
		if e.idleAction {
			nActs++
		}
		a := verifChoose("action", nActs)
		if e.idleAction && a == nActs-1 {
			// everything idles for a bit more than a second: keep-alive tickers fire
			verifAction("idle")
			verifAdvance(1100 * time.Millisecond)
			verifQuiesce()
			verifQuiesce()
			continue
		}
		if a >= nSrcActs+e.nTgt {
			t := e.targets[a-nSrcActs-e.nTgt]
			if t.stalled {
				verifAction("resume-target")
				t.resume()
			} else {
				verifAction("stall-target")
				t.stall()
			}
			verifQuiesce()
			continue
		}
		if a >= nSrcActs && !e.targets[a-nSrcActs].started {
			// a target that is not connected yet: the action is "connect"
			verifAction("connect")
			e.connectTarget(a - nSrcActs)
			verifQuiesce()
			continue
		}
		if a < nSrcActs {
			i := a / (maxBatch + 1)
			n := a % (maxBatch + 1)
			if e.wmOnly && n != 0 {
				verifAssume(false)
			}
			if n == 0 {
				verifAction("watermark")
			} else {
				verifAction("batch")
			}
			e.emitBatch(e.sources[i], n)
		} else {
			j := a - nSrcActs
			t := e.targets[j]
			k := 0
			if left := len(t.ids) - t.processed; left > 0 {
				k = verifChoose("process", left+1)
			}
			if !e.targetAck(t, k) {
				verifAssume(false) // a target with nothing to say: not a distinct schedule
			}
			verifAction("target-ack")
		}
		verifQuiesce()
	}
}

func verifHarness_C01_routing() {
	nSrc := verifParam("sources", 1)
	nTgt := verifParam("targets", 2)
	nAct := verifParam("actions", 4)
	maxBatch := verifParam("maxbatch", 2)
	verifConfig("preempt", verifParam("preempt", 0))
	verifConfig("maporder", verifParam("maporder", 0))
	e := rtNewEnv(nSrc, nTgt)
	if verifParam("late", 0) > 0 {
		e.lateFrom = nTgt - 1 // the last target connects by an explicit action, possibly after tasks for it arrived
	}
	e.idleAction = verifParam("idle", 0) == 1
	e.startAll()
	for _, s := range e.sources {
		s.onAck = c01OnAck
	}
	for _, t := range e.targets {
		t.onSend = c01OnSend
	}
	verifQuiesce()
	rtRunActions(e, nAct, maxBatch)
}

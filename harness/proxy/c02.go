package proxy

import (
	"fmt"

	"go.temporal.io/server/api/adminservice/v1"
	servercommon "go.temporal.io/server/common"
)

// ---------------------------------------------------------------------------
// C02 — each task once, to the owning shard, in a well-formed stream.

func c02OnSend(t *rtTarget, resp *adminservice.StreamWorkflowReplicationMessagesResponse) {
	e := t.env
	verifReach("message-sent-to-target")
	m := resp.GetMessages()
	if m != nil {
		for _, task := range m.ReplicationTasks {
			rec := e.byObj[task]
			verifAssert(rec != nil, "target-received-a-task-object-the-source-never-sent")
			if rec == nil {
				continue
			}
			// owner under the target cluster's own shard count
			owner := servercommon.WorkflowIDToHistoryShard(task.RawTaskInfo.NamespaceId, task.RawTaskInfo.WorkflowId, int32(e.nTgt))
			verifAssert(owner == t.shard.ShardID, "task-sent-to-the-shard-that-owns-its-workflow")
			verifAssert(rec.sentOn == nil, "task-sent-at-most-once")
			// both id fields rewritten to the same proxy id
			verifAssert(task.RawTaskInfo.TaskId == task.SourceTaskId, "both-task-id-fields-carry-the-same-proxy-id")
			// source order per source on this target
			for _, earlier := range t.tasks {
				if earlier != nil && earlier.source == rec.source {
					verifAssert(earlier.orig < rec.orig, "tasks-of-one-source-reach-a-target-in-source-order")
				}
			}
		}
	}
	ok, why := t.trackerAccept(resp)
	if !ok {
		verifAssert(false, "temporal-receiver-would-not-accept:"+why)
	}
}

func c02CheckFinal(e *rtEnv) {
	// a message already handed to a stream is not modified afterwards (grpc's SendMsg contract; the
	// senders rewrite ids and watermarks in place, so this also catches one message shared by two streams)
	for _, t := range e.targets {
		for k, m := range t.sent {
			verifAssert(m.GetMessages().GetExclusiveHighWatermark() == t.sentHigh[k], "message-not-modified-after-it-was-handed-to-the-target-stream")
		}
	}
	for k, rec := range e.tasks {
		verifAssert(rec.seenCount == 1, "every-task-delivered-exactly-once")
		// payload unchanged apart from the two id fields
		pid := rec.obj.SourceTaskId
		rec.obj.SourceTaskId = rec.orig
		if rec.obj.RawTaskInfo != nil {
			rec.obj.RawTaskInfo.TaskId = rec.orig
		}
		verifAssert(verifUnchangedExcept(fmt.Sprintf("task-%d", k), rec.obj), "payload-unchanged-apart-from-task-id-fields")
		rec.obj.SourceTaskId = pid
		if rec.obj.RawTaskInfo != nil {
			rec.obj.RawTaskInfo.TaskId = pid
		}
	}
}

func verifHarness_C02_routing() {
	nSrc := verifParam("sources", 1)
	nTgt := verifParam("targets", 2)
	nAct := verifParam("actions", 3)
	maxBatch := verifParam("maxbatch", 2)
	late := verifParam("late", 1) // last target connects late (action "connect")
	verifConfig("preempt", verifParam("preempt", 0))
	verifConfig("maporder", verifParam("maporder", 0))
	if sc := verifParam("chanscale", 0); sc > 0 {
		verifConfig("chanscale", sc) // hand-off queues of this capacity: a slow target fills its queue within the action bound
	}
	e := rtNewEnv(nSrc, nTgt)
	e.identities = verifParam("identities", 0) == 1
	e.idleAction = verifParam("idle", 0) == 1
	e.stallable = verifParam("stall", 0) == 1
	e.lateFrom = nTgt
	if late > 0 {
		e.lateFrom = nTgt - 1
	}
	e.startAll()
	for _, t := range e.targets {
		t.onSend = c02OnSend
	}
	verifQuiesce()
	e.snapshotTasks = true
	rtRunActions(e, nAct, maxBatch)
	// a slow target catches up, everything connects eventually; then the run settles
	for _, t := range e.targets {
		if t.stalled {
			verifReach("slow-target-resumed")
		}
		t.resume()
	}
	verifQuiesce()
	for j, t := range e.targets {
		if !t.started {
			e.connectTarget(j)
			verifQuiesce()
		}
	}
	verifQuiesce()
	verifQuiesce()
	c02CheckFinal(e)
}

package proxy

import (
	"go.temporal.io/server/common/log"

	"github.com/temporalio/s2s-proxy/config"
	"github.com/temporalio/s2s-proxy/interceptor"
)

// C14 (direction rules): search-attribute keys follow the same direction rules as namespaces:
// on the remote-facing (inbound) server requests are mapped remote->local and responses
// local->remote, the opposite on the local-facing server; non-one-to-one key mappings are rejected.

type c14Rec struct{ req, resp map[string]map[string]string }

var c14Translators []c14Rec

func verifStub_NewSearchAttributeTranslator(logger log.Logger, reqMap, respMap map[string]map[string]string) interceptor.Translator {
	c14Translators = append(c14Translators, c14Rec{reqMap, respMap})
	return nil
}

func verifHarness_C14_wiring() {
	keys := []string{"k1", "k2", "kx"}
	n := verifChoose("pairs", 3) // 0..2 key pairs
	var cfg config.ClusterConnConfig
	cfg.Name = "conn"
	cfg.Local.ConnectionType = config.ConnTypeTCP
	cfg.Remote.ConnectionType = config.ConnTypeTCP
	var maps []config.SAMapping
	dup := false
	for i := 0; i < n; i++ {
		l := keys[verifChoose("local-key", len(keys))]
		r := keys[verifChoose("remote-key", len(keys))]
		for _, m := range maps {
			if m.LocalName == l || m.RemoteName == r {
				dup = true
			}
		}
		maps = append(maps, config.SAMapping{LocalName: l, RemoteName: r})
	}
	if n > 0 {
		cfg.SearchAttributeTranslation.NamespaceMappings = []config.SANamespaceMapping{{Name: "ns", NamespaceId: "ns-id", Mappings: maps}}
	}
	c14Translators = nil
	in, out, err := wrBuild(cfg)
	if dup {
		verifReach("non-injective-key-mapping")
		verifAssert(err != nil, "non-one-to-one-key-mapping-rejected-at-start-up")
		return
	}
	verifAssert(err == nil && in != nil && out != nil, "one-to-one-key-mapping-accepted")
	if err != nil {
		return
	}
	if n == 0 {
		verifAssert(len(c14Translators) == 0, "no-search-attribute-translator-without-mappings")
		return
	}
	verifReach("sa-translators-built")
	verifAssert(len(c14Translators) == 2, "one-search-attribute-translator-per-server")
	if len(c14Translators) != 2 {
		return
	}
	inT, outT := c14Translators[0], c14Translators[1] // the inbound server is built first
	for _, m := range maps {
		v, ok := inT.req["ns-id"][m.RemoteName]
		verifAssert(ok && v == m.LocalName, "inbound-request-keys-mapped-remote-to-local")
		v, ok = inT.resp["ns-id"][m.LocalName]
		verifAssert(ok && v == m.RemoteName, "inbound-response-keys-mapped-local-to-remote")
		v, ok = outT.req["ns-id"][m.LocalName]
		verifAssert(ok && v == m.RemoteName, "outbound-request-keys-mapped-local-to-remote")
		v, ok = outT.resp["ns-id"][m.RemoteName]
		verifAssert(ok && v == m.LocalName, "outbound-response-keys-mapped-remote-to-local")
	}
	verifAssert(len(inT.req["ns-id"]) == n && len(inT.resp["ns-id"]) == n && len(outT.req["ns-id"]) == n && len(outT.resp["ns-id"]) == n, "key-maps-contain-exactly-the-configured-pairs")
}

package proxy

import (
	"context"
	"strconv"

	"go.temporal.io/server/api/adminservice/v1"
	"go.temporal.io/server/client/history"
	"go.temporal.io/server/common/log"
	"google.golang.org/grpc/metadata"

	"github.com/temporalio/s2s-proxy/common"
	"github.com/temporalio/s2s-proxy/config"
)

// ---------------------------------------------------------------------------
// C07 — LCM mode presents one consistent shard space.
//
// verifHarness_C07_pairs: per enumerated (local, remote) pair the real
// common.LCM / mapShardIDUnique / servercommon.MapShardID are executed with a
// symbolic LCM shard id s and a symbolic 32-bit workflow hash h.

var c07Composites = []int32{3, 5, 6, 7, 9, 10, 12, 15, 24, 36, 48, 60, 96, 100, 120, 192, 250, 384, 500, 768, 1000,
	1536, 3000, 4096, 5000, 6144, 8192, 10000, 12288, 16384}

func c07Pair() (int32, int32) {
	mode := verifParam("pairmode", 0)
	switch mode {
	case 0: // all pairs up to bound
		n := verifParam("maxcount", 16)
		l := int32(verifChoose("local", n) + 1)
		r := int32(verifChoose("remote", n) + 1)
		return l, r
	case 1: // powers of two up to 16384
		l := int32(1) << uint(verifChoose("localpow", 15))
		r := int32(1) << uint(verifChoose("remotepow", 15))
		return l, r
	default: // mixed composites
		l := c07Composites[verifChoose("localc", len(c07Composites))]
		r := c07Composites[verifChoose("remotec", len(c07Composites))]
		return l, r
	}
}

func verifHarness_C07_pairs() {
	local, remote := c07Pair()
	lcm := common.LCM(local, remote)
	verifObserve("lcm", local, remote, lcm)
	// lcm is a common multiple, positive, and no smaller common multiple exists below it
	// (checked concretely here; the arithmetic itself is executed by the engine)
	verifAssert(lcm > 0, "lcm-positive")
	verifAssert(lcm%local == 0 && lcm%remote == 0, "lcm-is-common-multiple")
	g := common.GCD(local, remote)
	verifAssert(g > 0 && local%g == 0 && remote%g == 0, "gcd-divides-both")
	verifAssert(int64(lcm)*int64(g) == int64(local)*int64(remote), "lcm*gcd=a*b")

	inbound := verifChoose("direction", 2) == 0
	// the parameters the real NewClusterConnection hands to the server of that direction
	var cfg config.ClusterConnConfig
	cfg.Name = "conn"
	cfg.Local.ConnectionType = config.ConnTypeTCP
	cfg.Remote.ConnectionType = config.ConnTypeTCP
	cfg.ShardCountConfig = config.ShardCountConfig{Mode: config.ShardCountLCM, LocalShardCount: local, RemoteShardCount: remote}
	in, out, err := wrBuild(cfg)
	verifAssert(err == nil && in != nil && out != nil, "cluster-connection-built")
	if err != nil || in == nil || out == nil {
		return
	}
	params := out.admin.lcmParameters
	served := remote // the outbound server forwards to the remote cluster
	if inbound {
		params = in.admin.lcmParameters
		served = local // the inbound server forwards to the local cluster
	}
	verifAssert(params.LCM == lcm, "server-configured-with-the-lcm")
	verifAssert(params.TargetShardCount == served, "server-configured-with-the-serving-clusters-real-count")
	t := params.TargetShardCount
	lcm = params.LCM
	s := verifNondetInt32("lcmShard")
	h := verifNondetUint32("workflowHash")
	verifAssume(verifAnd(s >= 1, s <= lcm))
	verifReach("lcm-shard-in-range")

	// the other server of the connection (same process, same LCM, the other real count) may have
	// mapped the same LCM shard before: the answer depends on this direction's count only
	if verifChoose("other-direction-first", 2) == 1 {
		otherT := local
		if inbound {
			otherT = remote
		}
		_ = mapShardIDUnique(lcm, otherT, s)
		verifReach("other-direction-mapped-first")
	}
	mapped := mapShardIDUnique(lcm, t, s)

	verifAssert(verifAnd(mapped >= 1, mapped <= t), "mapped-in-1..count")
	// every workflow hashing to LCM shard s is owned, under the serving cluster's own
	// count t, by the shard the stream is forwarded to
	hashesToS := int32(h%uint32(lcm))+1 == s
	owner := int32(h%uint32(t)) + 1
	verifAssert(verifImplies(hashesToS, mapped == owner), "forwarded-to-owner-of-every-workflow-in-s")
}

// verifHarness_C07_describe: DescribeCluster reports the LCM as the peer's shard count in both
// directions, and leaves the count alone when the translation-bypass header is set.
func verifHarness_C07_describe() {
	local, remote := c07Pair()
	var cfg config.ClusterConnConfig
	cfg.Name = "conn"
	cfg.Local.ConnectionType = config.ConnTypeTCP
	cfg.Remote.ConnectionType = config.ConnTypeTCP
	cfg.ShardCountConfig = config.ShardCountConfig{Mode: config.ShardCountLCM, LocalShardCount: local, RemoteShardCount: remote}
	in, out, err := wrBuild(cfg)
	verifAssert(err == nil && in != nil && out != nil, "cluster-connection-built")
	if err != nil || in == nil || out == nil {
		return
	}
	lcm := common.LCM(local, remote)
	inbound := verifChoose("direction", 2) == 0
	srv := out.admin
	wrBackendShardCount = remote // the outbound server asks the remote cluster
	if inbound {
		srv = in.admin
		wrBackendShardCount = local
	}
	bypass := verifChoose("bypass", 2) == 1
	md := metadata.Pairs("x", "y")
	if bypass {
		md.Set(common.RequestTranslationHeaderName, "false")
	}
	ctx := metadata.NewIncomingContext(context.Background(), md)
	resp, err := srv.DescribeCluster(ctx, &adminservice.DescribeClusterRequest{})
	verifAssert(err == nil && resp != nil, "describe-cluster-answered")
	if resp == nil {
		return
	}
	if bypass {
		verifReach("bypass")
		verifAssert(resp.HistoryShardCount == wrBackendShardCount, "bypass-header-leaves-the-real-count")
	} else {
		verifReach("translated")
		verifAssert(resp.HistoryShardCount == lcm, "describe-cluster-reports-the-lcm")
	}
}

// verifHarness_C07_stream: the LCM branch of the stream handler opens the stream to the serving
// cluster with the LCM shard id passed on as the initiator's shard and the mapped shard as server.
func verifHarness_C07_stream() {
	local, remote := c07Pair()
	lcm := common.LCM(local, remote)
	inbound := verifChoose("direction", 2) == 0
	var s int32
	switch verifChoose("shard", 3) {
	case 0:
		s = 1
	case 1:
		s = lcm
	case 2:
		s = (lcm + 1) / 2
	}
	// both servers of one connection live in one process and serve the same LCM shard space: the stream
	// for LCM shard s is opened in one direction, then in the other (nothing may carry over)
	c07ServeStream(local, remote, lcm, s, inbound)
	verifReach("other-direction-served-afterwards")
	c07ServeStream(local, remote, lcm, s, !inbound)
}

func c07ServeStream(local, remote, lcm, s int32, inbound bool) {
	t := remote
	if inbound {
		t = local
	}
	ini := &fwInit{ctx: metadata.NewIncomingContext(context.Background(), metadata.Pairs("k", "v")), in: make(chan c06Event, 1)}
	src := &fwSrc{in: make(chan c06Event, 1)}
	src.in <- c06Event{err: errC06} // the stream ends at once; only its opening metadata matters here
	client := &fwAdminClient{src: src}
	md := metadata.Pairs("other", "kept")
	err := handleStream(ini, md,
		history.ClusterShardID{ClusterID: 7, ShardID: s}, history.ClusterShardID{ClusterID: 9, ShardID: 4},
		log.NewNoopLogger(), config.ShardCountConfig{Mode: config.ShardCountLCM, LocalShardCount: local, RemoteShardCount: remote},
		LCMParameters{LCM: lcm, TargetShardCount: t}, RoutingParameters{}, client, nil, nil, []string{"l"}, context.Background())
	verifAssert(err == nil, "lcm-stream-handled")
	verifAssert(src.opened, "stream-opened-to-serving-cluster")
	if !src.opened {
		return
	}
	verifReach("lcm-stream-opened")
	get := func(k string) int {
		v := src.md.Get(k)
		if len(v) != 1 {
			return -999
		}
		n, e := strconv.Atoi(v[0])
		if e != nil {
			return -998
		}
		return n
	}
	owner := (s-1)%t + 1
	verifAssert(get(history.MetadataKeyClientClusterID) == 9, "initiator-cluster-id-passed-on")
	verifAssert(get(history.MetadataKeyClientShardID) == int(s), "lcm-shard-passed-on-as-initiators-shard")
	verifAssert(get(history.MetadataKeyServerClusterID) == 7, "serving-cluster-id-kept")
	verifAssert(get(history.MetadataKeyServerShardID) == int(owner), "forwarded-to-the-mapped-real-shard")
	verifAssert(len(src.md.Get("other")) == 1, "other-metadata-preserved")
}

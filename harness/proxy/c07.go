package proxy

import (
	"github.com/temporalio/s2s-proxy/common"
)

// ---------------------------------------------------------------------------
// C07 — LCM mode presents one consistent shard space.
//
// verifHarness_C07_pairs: per enumerated (local, remote) pair the real
// common.LCM / mapShardIDUnique / servercommon.MapShardID are executed with a
// symbolic LCM shard id s and a symbolic 32-bit workflow hash h.

var c07Composites = []int32{3, 5, 6, 7, 9, 10, 12, 15, 24, 36, 48, 60, 96, 100, 120, 192, 250, 384, 500, 768, 1000,
	1536, 3000, 4096, 5000, 6144, 8192, 10000, 12288, 16384}

func c07Pair() (int32, int32) {
	mode := verifParam("pairmode", 0)
	switch mode {
	case 0: // all pairs up to bound
		n := verifParam("maxcount", 16)
		l := int32(verifChoose("local", n) + 1)
		r := int32(verifChoose("remote", n) + 1)
		return l, r
	case 1: // powers of two up to 16384
		l := int32(1) << uint(verifChoose("localpow", 15))
		r := int32(1) << uint(verifChoose("remotepow", 15))
		return l, r
	default: // mixed composites
		l := c07Composites[verifChoose("localc", len(c07Composites))]
		r := c07Composites[verifChoose("remotec", len(c07Composites))]
		return l, r
	}
}

func verifHarness_C07_pairs() {
	local, remote := c07Pair()
	lcm := common.LCM(local, remote)
	verifObserve("lcm", local, remote, lcm)
	// lcm is a common multiple, positive, and no smaller common multiple exists below it
	// (checked concretely here; the arithmetic itself is executed by the engine)
	verifAssert(lcm > 0, "lcm-positive")
	verifAssert(lcm%local == 0 && lcm%remote == 0, "lcm-is-common-multiple")
	g := common.GCD(local, remote)
	verifAssert(g > 0 && local%g == 0 && remote%g == 0, "gcd-divides-both")
	verifAssert(int64(lcm)*int64(g) == int64(local)*int64(remote), "lcm*gcd=a*b")

	inbound := verifChoose("direction", 2) == 0
	// what NewClusterConnection's getLCMParameters computes
	t := remote
	if inbound {
		t = local
	}
	s := verifNondetInt32("lcmShard")
	h := verifNondetUint32("workflowHash")
	verifAssume(verifAnd(s >= 1, s <= lcm))
	verifReach("lcm-shard-in-range")

	mapped := mapShardIDUnique(lcm, t, s)

	verifAssert(verifAnd(mapped >= 1, mapped <= t), "mapped-in-1..count")
	// every workflow hashing to LCM shard s is owned, under the serving cluster's own
	// count t, by the shard the stream is forwarded to
	hashesToS := int32(h%uint32(lcm))+1 == s
	owner := int32(h%uint32(t)) + 1
	verifAssert(verifImplies(hashesToS, mapped == owner), "forwarded-to-owner-of-every-workflow-in-s")
}


package proxy

import (
	"io"

	"go.temporal.io/server/api/adminservice/v1"
	replicationv1 "go.temporal.io/server/api/replication/v1"
	"go.temporal.io/server/client/history"
	"go.temporal.io/server/common/channel"
	"go.temporal.io/server/common/log"
	"google.golang.org/grpc"
)

// C03 (idle source, target shards on a peer proxy instance): a target stream can only acknowledge up
// to the source's final high watermark if the source's watermark-only batches reach it. With the
// target cluster's shards spread over two proxy instances (C09's harness world), the real
// recvReplicationMessages must hand every watermark-only batch to every target-cluster shard owned by
// the peer, over the intra-proxy stream of that (target, source) pair — and to no shard of another cluster.

type c3PeerServer struct {
	grpc.ServerStream
	got []*adminservice.StreamWorkflowReplicationMessagesResponse
}

func (s *c3PeerServer) Send(m *adminservice.StreamWorkflowReplicationMessagesResponse) error {
	s.got = append(s.got, m)
	return nil
}

func (s *c3PeerServer) Recv() (*adminservice.StreamWorkflowReplicationMessagesRequest, error) {
	return nil, io.EOF
}

type c3Src struct {
	grpc.ClientStream
	msgs []*adminservice.StreamWorkflowReplicationMessagesResponse
	i    int
}

func (s *c3Src) Recv() (*adminservice.StreamWorkflowReplicationMessagesResponse, error) {
	if s.i < len(s.msgs) {
		m := s.msgs[s.i]
		s.i++
		return m, nil
	}
	return nil, io.EOF
}
func (s *c3Src) Send(*adminservice.StreamWorkflowReplicationMessagesRequest) error { return nil }
func (s *c3Src) CloseSend() error                                                 { return nil }

func verifHarness_C03_peerWatermark() {
	verifConfig("preempt", 0)
	w := c9NewWorld(2)
	a, b := w.insts[0], w.insts[1]
	source := history.ClusterShardID{ClusterID: 1, ShardID: 1}
	nT := 1 + verifChoose("peer-target-shards", 2)
	var peerTargets []history.ClusterShardID
	for i := 0; i < nT; i++ {
		id := history.ClusterShardID{ClusterID: 2, ShardID: int32(i + 2)}
		b.sm.RegisterShard(id)
		peerTargets = append(peerTargets, id)
	}
	// the peer may also serve a stream of the opposite direction: it then owns a shard of the source's cluster
	otherID := history.ClusterShardID{ClusterID: 1, ShardID: 9}
	other := verifChoose("peer-owns-a-shard-of-the-sources-cluster", 2) == 1
	if other {
		b.sm.RegisterShard(otherID)
		verifReach("peer-owns-a-shard-of-the-sources-cluster")
	}
	verifQuiesce()
	w.merge(b, a)

	im := a.sm.intraMgr
	servers := map[history.ClusterShardID]*c3PeerServer{}
	im.streamsMu.Lock()
	ps := im.peers[b.name]
	if ps == nil {
		ps = &peerState{receivers: map[peerStreamKey]*intraProxyStreamReceiver{}, senders: map[peerStreamKey]*intraProxyStreamSender{}, recvShutdown: map[peerStreamKey]channel.ShutdownOnce{}}
		im.peers[b.name] = ps
	}
	all := append([]history.ClusterShardID{}, peerTargets...)
	if other {
		all = append(all, otherID)
	}
	for _, t := range all {
		srv := &c3PeerServer{}
		servers[t] = srv
		ps.senders[peerStreamKey{targetShard: t, sourceShard: source}] = &intraProxyStreamSender{logger: log.NewNoopLogger(), shardManager: a.sm,
			peerNodeName: b.name, targetShardID: t, sourceShardID: source, sourceStreamServer: srv}
	}
	im.streamsMu.Unlock()

	nWM := 1 + verifChoose("watermark-only-batches", 2)
	src := &c3Src{}
	for k := 0; k < nWM; k++ {
		src.msgs = append(src.msgs, &adminservice.StreamWorkflowReplicationMessagesResponse{
			Attributes: &adminservice.StreamWorkflowReplicationMessagesResponse_Messages{
				Messages: &replicationv1.WorkflowReplicationMessages{ExclusiveHighWatermark: int64(11 + k)}}})
	}
	r := &proxyStreamReceiver{logger: log.NewNoopLogger(), shardManager: a.sm, localShardCount: 4, sourceShardID: source,
		targetShardID: history.ClusterShardID{ClusterID: 2, ShardID: 1}, directionLabel: "verif", ackByTarget: map[history.ClusterShardID]int64{}}
	err := r.recvReplicationMessages(src, channel.NewShutdownOnce())
	verifAssert(err == nil, "peer-watermark:receiver-loop-ends-cleanly-at-eof")
	verifReach("watermarks-broadcast")
	for _, t := range peerTargets {
		srv := servers[t]
		verifAssert(len(srv.got) == nWM, "peer-watermark:every-watermark-only-batch-reaches-every-target-shard-owned-by-the-peer")
		for k, m := range srv.got {
			msgs := m.GetMessages()
			verifAssert(msgs != nil && msgs.ExclusiveHighWatermark == int64(11+k) && len(msgs.ReplicationTasks) == 0, "peer-watermark:the-sources-high-watermark-is-passed-on-in-order")
		}
	}
	if other {
		verifAssert(len(servers[otherID].got) == 0, "peer-watermark:shards-of-another-cluster-get-nothing")
	}
}

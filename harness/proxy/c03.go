package proxy

import (
	"time"

	"go.temporal.io/server/api/adminservice/v1"
	replicationv1 "go.temporal.io/server/api/replication/v1"
	"go.temporal.io/server/client/history"
	"go.temporal.io/server/common/channel"
)

// ---------------------------------------------------------------------------
// C03 — acks to a source are monotone, bounded and eventually complete.

func c03OnAck(s *rtSource, a int64) {
	verifReach("ack-sent-to-source")
	for _, prev := range s.acks {
		verifAssert(a >= prev, "acks-to-a-source-never-decrease")
	}
	verifAssert(a <= s.lastHigh, "ack-never-exceeds-last-high-watermark-received-from-the-source")
}

func c03OnSend(t *rtTarget, resp *adminservice.StreamWorkflowReplicationMessagesResponse) {
	t.trackerAccept(resp)
}

func verifHarness_C03_routing() {
	nSrc := verifParam("sources", 1)
	nTgt := verifParam("targets", 2)
	nAct := verifParam("actions", 3)
	maxBatch := verifParam("maxbatch", 2)
	rounds := verifParam("rounds", 2)
	verifConfig("preempt", verifParam("preempt", 0))
	verifConfig("maporder", verifParam("maporder", 0))
	if sc := verifParam("chanscale", 0); sc > 0 {
		verifConfig("chanscale", sc)
	}
	e := rtNewEnv(nSrc, nTgt)
	e.lateFrom = nTgt
	e.stallable = verifParam("stall", 0) == 1
	e.wmOnly = verifParam("wmonly", 0) == 1
	e.startAll()
	for _, s := range e.sources {
		s.onAck = c03OnAck
	}
	for _, t := range e.targets {
		t.onSend = c03OnSend
	}
	verifQuiesce()
	rtRunActions(e, nAct, maxBatch)

	// fair completion: the source keeps sending its periodic watermark, every
	// target keeps acknowledging everything it holds.
	for _, t := range e.targets {
		if t.stalled {
			verifReach("slow-target-resumed-for-drain")
		}
		t.resume()
	}
	verifQuiesce()
	for r := 0; r < rounds; r++ {
		verifAction("drain-round")
		for _, s := range e.sources {
			e.emitWatermarkAgain(s)
		}
		verifQuiesce()
		for _, t := range e.targets {
			e.targetAck(t, len(t.ids))
			verifQuiesce()
		}
		verifAdvance(1100 * time.Millisecond)
		verifQuiesce()
	}
	for _, s := range e.sources {
		verifReach("drain-finished")
		verifAssert(len(s.acks) > 0, "source-eventually-receives-an-ack")
		if len(s.acks) > 0 {
			verifAssert(s.acks[len(s.acks)-1] == s.lastHigh, "source-eventually-receives-ack-equal-to-its-final-high-watermark")
		}
	}
}

// verifHarness_C03_sendAckStep: one inductive step of the ack aggregator from an ARBITRARY state
// (any per-target ack map of <=3 targets, any last-sent minimum, any last source high watermark
// with lastSentMin <= high when high > 0), one arbitrary incoming acknowledgement. Covers
// histories of any length for the aggregator alone.
func verifHarness_C03_sendAckStep() {
	verifConfig("preempt", 0)
	e := rtNewEnv(1, 1)
	src := e.newSource(0)
	nT := verifChoose("known-targets", 4) // 0..3 targets already in the map
	r := &proxyStreamReceiver{
		logger: e.logger, shardManager: e.sm, sourceShardID: src.shard,
		ackChan:     make(chan RoutedAck, 2),
		ackByTarget: map[history.ClusterShardID]int64{},
	}
	lastSent := verifNondetInt64("lastSentMin")
	high := verifNondetInt64("lastExclusiveHighOriginal")
	verifAssume(verifAnd(lastSent >= 0, lastSent < 1<<40))
	verifAssume(verifAnd(high >= 0, high < 1<<40))
	// representation invariant of the aggregator (established by recvReplicationMessages under
	// monotone source watermarks): what was sent never exceeded the source's high watermark
	verifAssume(verifOr(high == 0, lastSent <= high))
	r.lastSentMin, r.lastExclusiveHighOriginal = lastSent, high
	for k := 0; k < nT; k++ {
		v := verifNondetInt64("ackByTarget")
		verifAssume(verifAnd(v >= 0, v < 1<<40))
		r.ackByTarget[history.ClusterShardID{ClusterID: rtTargetCluster, ShardID: int32(k + 1)}] = v
	}
	from := verifChoose("acking-target", 3)
	w := verifNondetInt64("incoming")
	verifAssume(verifAnd(w >= 0, w < 1<<40))
	sent := int64(-1)
	nSent := 0
	src.onAck = func(s *rtSource, a int64) { sent = a; nSent++ }
	shut := channel.NewShutdownOnce()
	r.ackChan <- RoutedAck{TargetShard: history.ClusterShardID{ClusterID: rtTargetCluster, ShardID: int32(from + 1)},
		Req: &adminservice.StreamWorkflowReplicationMessagesRequest{Attributes: &adminservice.StreamWorkflowReplicationMessagesRequest_SyncReplicationState{
			SyncReplicationState: &replicationv1.SyncReplicationState{InclusiveLowWatermark: w}}}}
	go func() { _ = r.sendAck(src, shut) }()
	verifQuiesce()
	// optionally the stream then idles for more than a second: the keep-alive must repeat exactly what
	// was last sent (it bypasses the monotonicity gate and the clamp)
	stepSent, stepN := sent, nSent
	if verifChoose("then-idle", 2) == 1 {
		verifAdvance(1100 * time.Millisecond)
		verifQuiesce()
		if nSent > stepN {
			verifReach("step-keep-alive-sent")
			verifAssert(stepN == 1 && sent == stepSent, "step:keep-alive-repeats-the-last-ack-sent")
		}
		sent, nSent = stepSent, stepN
	}
	shut.Shutdown()
	verifQuiesce()
	verifAssert(nSent <= 1, "step:at-most-one-ack-per-incoming-ack")
	if nSent == 1 {
		verifReach("step-ack-sent")
		verifAssert(sent >= lastSent, "step:ack-not-below-the-previous-one")
		verifAssert(verifOr(high == 0, sent <= high), "step:ack-not-above-source-high-watermark")
		verifAssert(r.lastSentMin == sent, "step:last-sent-updated")
		// what is sent is the minimum over the (updated) map, clamped
		for _, v := range r.ackByTarget {
			verifAssert(verifOr(sent <= v, verifAnd(high > 0, sent == high)), "step:ack-is-at-most-every-targets-ack")
		}
	} else {
		verifReach("step-ack-withheld")
		verifAssert(r.lastSentMin == lastSent, "step:state-unchanged-when-nothing-sent")
	}
	verifAssert(verifOr(high == 0, r.lastSentMin <= high), "step:invariant-preserved")
}

package proxy

import (
	"time"

	"go.temporal.io/server/api/adminservice/v1"
)

// ---------------------------------------------------------------------------
// C03 — acks to a source are monotone, bounded and eventually complete.

func c03OnAck(s *rtSource, a int64) {
	verifReach("ack-sent-to-source")
	for _, prev := range s.acks {
		verifAssert(a >= prev, "acks-to-a-source-never-decrease")
	}
	verifAssert(a <= s.lastHigh, "ack-never-exceeds-last-high-watermark-received-from-the-source")
}

func c03OnSend(t *rtTarget, resp *adminservice.StreamWorkflowReplicationMessagesResponse) {
	t.trackerAccept(resp)
}

func verifHarness_C03_routing() {
	nSrc := verifParam("sources", 1)
	nTgt := verifParam("targets", 2)
	nAct := verifParam("actions", 3)
	maxBatch := verifParam("maxbatch", 2)
	rounds := verifParam("rounds", 2)
	verifConfig("preempt", verifParam("preempt", 0))
	verifConfig("maporder", verifParam("maporder", 0))
	if sc := verifParam("chanscale", 0); sc > 0 {
		verifConfig("chanscale", sc)
	}
	e := rtNewEnv(nSrc, nTgt)
	e.lateFrom = nTgt
	e.stallable = verifParam("stall", 0) == 1
	e.wmOnly = verifParam("wmonly", 0) == 1
	e.startAll()
	for _, s := range e.sources {
		s.onAck = c03OnAck
	}
	for _, t := range e.targets {
		t.onSend = c03OnSend
	}
	verifQuiesce()
	rtRunActions(e, nAct, maxBatch)

	// fair completion: the source keeps sending its periodic watermark, every
	// target keeps acknowledging everything it holds.
	for _, t := range e.targets {
		if t.stalled {
			verifReach("slow-target-resumed-for-drain")
		}
		t.resume()
	}
	verifQuiesce()
	for r := 0; r < rounds; r++ {
		verifAction("drain-round")
		for _, s := range e.sources {
			e.emitWatermarkAgain(s)
		}
		verifQuiesce()
		for _, t := range e.targets {
			e.targetAck(t, len(t.ids))
			verifQuiesce()
		}
		verifAdvance(1100 * time.Millisecond)
		verifQuiesce()
	}
	for _, s := range e.sources {
		verifReach("drain-finished")
		verifAssert(len(s.acks) > 0, "source-eventually-receives-an-ack")
		if len(s.acks) > 0 {
			verifAssert(s.acks[len(s.acks)-1] == s.lastHigh, "source-eventually-receives-ack-equal-to-its-final-high-watermark")
		}
	}
}

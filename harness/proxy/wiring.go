package proxy

import (
	"context"
	"crypto/tls"
	"net"

	"go.temporal.io/api/workflowservice/v1"
	"go.temporal.io/server/api/adminservice/v1"
	"go.temporal.io/server/common/log"
	"google.golang.org/grpc"
	"google.golang.org/grpc/credentials"

	"github.com/temporalio/s2s-proxy/config"
	"github.com/temporalio/s2s-proxy/encryption"
	"github.com/temporalio/s2s-proxy/logging"
	"github.com/temporalio/s2s-proxy/transport/grpcutil"
	"github.com/temporalio/s2s-proxy/transport/mux"
)

// ---------------------------------------------------------------------------
// Wiring harness: the real NewClusterConnection -> createServer ->
// createTCPServer / buildProxyServer -> makeServerOptions run with the
// transport constructors replaced by recording stubs (engine redirect table),
// so that what each server is *configured with* is the code's, not the
// harness's. Serves C15 (ACL attached to the remote-facing server, after
// translation, both transports), C13 (translation direction), C07 (LCM
// parameters per direction), C19 (each listener gets its own TLS section).

type wrServer struct {
	unary    []grpc.UnaryServerInterceptor
	stream   []grpc.StreamServerInterceptor
	admin    *adminServiceProxyServer
	workflow *workflowServiceProxyServer
	tls      []encryption.TLSConfig
	tlsOut   []*tls.Config                    // what the (stubbed) GetServerTLSConfig returned for this server
	creds    []credentials.TransportCredentials // what was handed to grpc.Creds for this server
}

var wrServers []*wrServer
var wrCur *wrServer
var wrClientTLS []encryption.TLSConfig
var wrMuxDefs []config.ClusterDefinition

type wrClientConn struct {
	grpc.ClientConnInterface
	label string
}

// Invoke serves unary calls of the generated clients built on this connection.
func (c *wrClientConn) Invoke(ctx context.Context, method string, args any, reply any, opts ...grpc.CallOption) error {
	if r, ok := reply.(*adminservice.DescribeClusterResponse); ok {
		r.HistoryShardCount = wrBackendShardCount
		r.ClusterName = "backend-" + c.label
	}
	wrInvoked = append(wrInvoked, c.label+":"+method)
	return nil
}

var wrBackendShardCount int32
var wrInvoked []string

func (c *wrClientConn) Close() error       { return nil }
func (c *wrClientConn) Describe() string   { return c.label }
func (c *wrClientConn) CanMakeCalls() bool { return true }

type wrListener struct{ net.Listener }
type wrAddr struct{}

func (wrAddr) Network() string    { return "tcp" }
func (wrAddr) String() string     { return "verif:0" }
func (wrListener) Addr() net.Addr { return wrAddr{} }
func (wrListener) Close() error   { return nil }

type wrMux struct{ mux.MultiMuxManager }

func (wrMux) Start()                     {}
func (wrMux) Describe() string           { return "verif-mux" }
func (wrMux) Name() string               { return "verif-mux" }
func (wrMux) CanAcceptConnections() bool { return true }

func verifStub_createClient(lifetime context.Context, connectionName string, transportCfg config.ClusterDefinition, directionLabel string) (closableClientConn, error) {
	if transportCfg.ConnectionType == config.ConnTypeTCP {
		wrClientTLS = append(wrClientTLS, transportCfg.TcpClient.TLSConfig)
		return &wrClientConn{label: directionLabel}, nil
	}
	// mux transports hand the server a *grpcutil.MultiClientConn (type-asserted in createServer)
	return &grpcutil.MultiClientConn{}, nil
}

func verifStub_netListen(network, address string) (net.Listener, error) { return wrListener{}, nil }

func verifStub_ChainUnary(interceptors ...grpc.UnaryServerInterceptor) grpc.ServerOption {
	wrCur = &wrServer{unary: interceptors}
	wrServers = append(wrServers, wrCur)
	return nil
}

func verifStub_ChainStream(interceptors ...grpc.StreamServerInterceptor) grpc.ServerOption {
	wrCur.stream = interceptors
	return nil
}

func verifStub_NewServer(opt ...grpc.ServerOption) *grpc.Server { return nil }

func verifStub_RegisterAdmin(s grpc.ServiceRegistrar, srv adminservice.AdminServiceServer) {
	wrCur.admin = srv.(*adminServiceProxyServer)
}

func verifStub_RegisterWorkflow(s grpc.ServiceRegistrar, srv workflowservice.WorkflowServiceServer) {
	wrCur.workflow = srv.(*workflowServiceProxyServer)
}

func verifStub_NewGRPCMuxManager(ctx context.Context, name string, cd config.ClusterDefinition, listener mux.ConnListener, serverDefinition *grpc.Server, logger log.Logger) (mux.MultiMuxManager, error) {
	wrMuxDefs = append(wrMuxDefs, cd)
	return wrMux{}, nil
}

func wrLoggers() logging.LoggerProvider {
	return logging.NewLoggerProvider(log.NewNoopLogger(), config.NewMockConfigProvider(config.S2SProxyConfig{}))
}

func wrConnType(label string) config.ConnectionType {
	switch verifChoose(label, 3) {
	case 0:
		return config.ConnTypeTCP
	case 1:
		return config.ConnTypeMuxClient
	}
	return config.ConnTypeMuxServer
}

// wrBuild runs the real constructor and returns (inbound, outbound) as configured.
func wrBuild(cfg config.ClusterConnConfig) (*wrServer, *wrServer, error) {
	wrServers, wrCur, wrClientTLS, wrMuxDefs = nil, nil, nil, nil
	_, err := NewClusterConnection(context.Background(), cfg, wrLoggers())
	if err != nil {
		return nil, nil, err
	}
	verifAssert(len(wrServers) == 2, "wiring:two-servers-built")
	var in, out *wrServer
	for _, s := range wrServers {
		if s.admin == nil || len(s.admin.metricLabelValues) != 1 {
			verifFail("wiring:server-without-admin-service")
			continue
		}
		switch s.admin.metricLabelValues[0] {
		case "inbound":
			in = s
		case "outbound":
			out = s
		}
	}
	verifAssert(in != nil && out != nil, "wiring:inbound-and-outbound-servers-identified")
	return in, out, nil
}

package proxy

import (
	"context"
	"strings"

	"go.temporal.io/server/common/api"
	"google.golang.org/grpc"
	"google.golang.org/grpc/codes"

	"github.com/temporalio/s2s-proxy/config"
)

// C15 (wiring clause): the policy guards the remote-facing (inbound) server,
// whichever transport it uses, after translation; the outbound server has none.

func c15wRunUnary(chain []grpc.UnaryServerInterceptor, full string) (int, error) {
	invoked := 0
	var call func(i int, ctx context.Context, req any) (any, error)
	call = func(i int, ctx context.Context, req any) (any, error) {
		if i == len(chain) {
			invoked++
			return nil, nil
		}
		if strings.Contains(verifFuncName(chain[i]), "opaque") {
			return call(i+1, ctx, req) // metrics interceptor (observability stub): passes through
		}
		return chain[i](ctx, req, &grpc.UnaryServerInfo{FullMethod: full}, func(ctx context.Context, req any) (any, error) {
			return call(i+1, ctx, req)
		})
	}
	_, err := call(0, context.Background(), nil)
	return invoked, err
}

func c15wRunStream(chain []grpc.StreamServerInterceptor, full string) (int, error) {
	invoked := 0
	var call func(i int) error
	call = func(i int) error {
		if i == len(chain) {
			invoked++
			return nil
		}
		if strings.Contains(verifFuncName(chain[i]), "opaque") {
			return call(i + 1)
		}
		return chain[i](nil, nil, &grpc.StreamServerInfo{FullMethod: full}, func(srv any, ss grpc.ServerStream) error {
			return call(i + 1)
		})
	}
	err := call(0)
	return invoked, err
}

func c15wIndex(names []string, sub string) int {
	for i, n := range names {
		if strings.Contains(n, sub) {
			return i
		}
	}
	return -1
}

func verifHarness_C15_wiring() {
	var cfg config.ClusterConnConfig
	cfg.Name = "conn"
	cfg.Local.ConnectionType = wrConnType("local-transport")
	cfg.Remote.ConnectionType = wrConnType("remote-transport")
	policyKind := verifChoose("policy", 3) // 0 none, 1 lists, 2 present but empty (unrestricted lists, namespace lifecycle still refused)
	hasPolicy := policyKind != 0
	switch policyKind {
	case 1:
		cfg.ACLPolicy = &config.ACLPolicy{AllowedMethods: config.AllowedMethods{AdminService: []string{"DescribeCluster"}}, AllowedNamespaces: []string{"ns-ok"}}
	case 2:
		cfg.ACLPolicy = &config.ACLPolicy{}
		verifReach("empty-policy")
	}
	hasTranslation := verifChoose("translation", 2) == 1
	if hasTranslation {
		cfg.NamespaceTranslation.Mappings = []config.StringMapping{{Local: "l-ns", Remote: "r-ns"}}
	}
	in, out, err := wrBuild(cfg)
	verifAssert(err == nil, "wiring:constructor-succeeds")
	if err != nil || in == nil || out == nil {
		return
	}
	verifReach("servers-built")
	var inU, inS, outU, outS []string
	for _, f := range in.unary {
		inU = append(inU, verifFuncName(f))
	}
	for _, f := range in.stream {
		inS = append(inS, verifFuncName(f))
	}
	for _, f := range out.unary {
		outU = append(outU, verifFuncName(f))
	}
	for _, f := range out.stream {
		outS = append(outS, verifFuncName(f))
	}
	aclU, aclS := c15wIndex(inU, "AccessControlInterceptor"), c15wIndex(inS, "AccessControlInterceptor")
	verifAssert((aclU >= 0) == hasPolicy, "inbound-server-has-unary-acl-interceptor-iff-policy-configured")
	verifAssert((aclS >= 0) == hasPolicy, "inbound-server-has-stream-acl-interceptor-iff-policy-configured")
	verifAssert(c15wIndex(outU, "AccessControlInterceptor") < 0 && c15wIndex(outS, "AccessControlInterceptor") < 0, "outbound-server-has-no-acl-interceptor")
	trU, trS := c15wIndex(inU, "TranslationInterceptor"), c15wIndex(inS, "TranslationInterceptor")
	verifAssert((trU >= 0) == hasTranslation && (trS >= 0) == hasTranslation, "translation-interceptor-present-iff-translation-configured")
	if hasPolicy && hasTranslation {
		verifReach("policy-and-translation")
		verifAssert(trU < aclU && trS < aclS, "acl-check-runs-after-translation")
	}
	// behaviour through the assembled chain: a method outside the list never reaches the handler
	if policyKind == 2 && !hasTranslation {
		// an empty policy restricts no admin method, but namespace registration/deprecation stay refused
		n, e := c15wRunUnary(in.unary, api.WorkflowServicePrefix+"RegisterNamespace")
		verifAssert(n == 0 && verifStatusCode(e) == int(codes.PermissionDenied), "namespace-registration-refused-under-any-policy")
		n, e = c15wRunUnary(in.unary, api.WorkflowServicePrefix+"DeprecateNamespace")
		verifAssert(n == 0 && verifStatusCode(e) == int(codes.PermissionDenied), "namespace-deprecation-refused-under-any-policy")
		n, e = c15wRunUnary(in.unary, api.AdminServicePrefix+"AddOrUpdateRemoteCluster")
		verifAssert(n == 1 && e == nil, "empty-allow-list-is-unrestricted")
	}
	if policyKind == 1 && !hasTranslation {
		n, e := c15wRunUnary(in.unary, api.AdminServicePrefix+"AddOrUpdateRemoteCluster")
		verifAssert(n == 0 && verifStatusCode(e) == int(codes.PermissionDenied), "assembled-inbound-server-refuses-unlisted-admin-method")
		n, e = c15wRunUnary(in.unary, api.AdminServicePrefix+"DescribeCluster")
		verifAssert(n == 1 && e == nil, "assembled-inbound-server-forwards-listed-admin-method")
		n, e = c15wRunStream(in.stream, api.AdminServicePrefix+"StreamWorkflowReplicationMessages")
		verifAssert(n == 0 && verifStatusCode(e) == int(codes.PermissionDenied), "assembled-inbound-server-refuses-unlisted-admin-stream")
		n, e = c15wRunUnary(in.unary, api.WorkflowServicePrefix+"RegisterNamespace")
		verifAssert(n == 0 && verifStatusCode(e) == int(codes.PermissionDenied), "assembled-inbound-server-refuses-namespace-registration")
	}
	// the workflow service behind the inbound server filters ListNamespaces with the same policy
	verifAssert((in.workflow.namespaceAccess != nil) == hasPolicy, "inbound-workflow-service-has-namespace-filter-iff-policy")
}

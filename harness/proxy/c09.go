package proxy

import (
	"errors"
	"sort"
	"time"

	"github.com/hashicorp/memberlist"
	"go.temporal.io/server/api/adminservice/v1"
	replicationv1 "go.temporal.io/server/api/replication/v1"
	"go.temporal.io/server/client/history"
	"go.temporal.io/server/common/channel"
	"go.temporal.io/server/common/log"
	"google.golang.org/grpc"

	"github.com/temporalio/s2s-proxy/config"
	"github.com/temporalio/s2s-proxy/encryption"
)

// ---------------------------------------------------------------------------
// C09 — proxy instances converge on one owner per shard and route to it.
//
// 2-3 real shardManagerImpl values share a harness "network": memberlist's
// SendReliable / Members / UpdateNode and the JSON codec are stubs (engine
// redirect table); announcements are delivered in a symbolic order, possibly
// duplicated; full-state merges and leave events are harness actions.

type c9Inst struct {
	name string
	sm   *shardManagerImpl
	ml   *memberlist.Memberlist
	left bool
}

type c9Packet struct {
	from, to string
	data     []byte
	copies   int
}

type c9World struct {
	insts   []*c9Inst
	byML    map[*memberlist.Memberlist]*c9Inst
	net     []*c9Packet
	objects []any // identity "encoding": a message is its index in this table
}

var c9 *c9World

func verifStub_jsonMarshal(v any) ([]byte, error) {
	c9.objects = append(c9.objects, v)
	return []byte{byte(len(c9.objects) - 1)}, nil
}

func verifStub_jsonUnmarshal(data []byte, v any) error {
	if len(data) != 1 || int(data[0]) >= len(c9.objects) {
		return errors.New("verif: not an encoded object")
	}
	switch dst := v.(type) {
	case *ShardMessage:
		src, ok := c9.objects[data[0]].(ShardMessage)
		if !ok {
			return errors.New("verif: type mismatch")
		}
		*dst = src
	case *NodeShardState:
		src, ok := c9.objects[data[0]].(NodeShardState)
		if !ok {
			return errors.New("verif: type mismatch")
		}
		cp := NodeShardState{NodeName: src.NodeName, Updated: src.Updated, Shards: map[string]ShardInfo{}}
		for k, s := range src.Shards {
			cp.Shards[k] = s
		}
		*dst = cp
	default:
		return errors.New("verif: unsupported target")
	}
	return nil
}

func verifStub_mlSendReliable(ml *memberlist.Memberlist, to *memberlist.Node, msg []byte) error {
	from := c9.byML[ml]
	c9.net = append(c9.net, &c9Packet{from: from.name, to: to.Name, data: msg})
	return nil
}

func verifStub_mlMembers(ml *memberlist.Memberlist) []*memberlist.Node {
	var ns []*memberlist.Node
	for _, in := range c9.insts {
		if !in.left {
			ns = append(ns, &memberlist.Node{Name: in.name})
		}
	}
	return ns
}

func verifStub_mlNumMembers(ml *memberlist.Memberlist) int { return len(verifStub_mlMembers(ml)) }
func verifStub_mlUpdateNode(ml *memberlist.Memberlist, timeout int64) error {
	return nil
}

func c9NewWorld(n int) *c9World {
	w := &c9World{byML: map[*memberlist.Memberlist]*c9Inst{}}
	c9 = w
	names := []string{"proxy-a", "proxy-b", "proxy-c"}
	addrs := map[string]string{}
	for i := 0; i < n; i++ {
		addrs[names[i]] = names[i] + ":7"
	}
	for i := 0; i < n; i++ {
		cfg := &config.MemberlistConfig{NodeName: names[i], ProxyAddresses: addrs}
		sm := NewShardManager(cfg, config.ShardCountConfig{Mode: config.ShardCountRouting}, encryption.TLSConfig{}, wrLoggers()).(*shardManagerImpl)
		in := &c9Inst{name: names[i], sm: sm, ml: &memberlist.Memberlist{}}
		sm.ml = in.ml
		sm.started = true
		sm.SetupCallbacks()
		w.insts = append(w.insts, in)
		w.byML[in.ml] = in
	}
	return w
}

// push/pull: a's full state is merged at b
func (w *c9World) merge(a, b *c9Inst) {
	data := a.sm.delegate.LocalState(false)
	b.sm.delegate.MergeRemoteState(data, false)
}

func (w *c9World) inst(name string) *c9Inst {
	for _, in := range w.insts {
		if in.name == name {
			return in
		}
	}
	return nil
}

func (w *c9World) deliver(p *c9Packet) {
	if to := w.inst(p.to); to != nil && !to.left {
		to.sm.delegate.NotifyMsg(p.data)
	}
	p.copies++
}

// verifHarness_C09_converge: several instances claim the same shard; after every announcement
// has been delivered (any order, optional duplicates) only the newest claim survives.
func verifHarness_C09_converge() {
	verifConfig("preempt", verifParam("preempt", 1))
	nInst := verifParam("instances", 2)
	maxDeliveries := verifParam("deliveries", 6)
	w := c9NewWorld(nInst)
	// the instances know each other at the membership level; the first application-level state
	// exchange (push/pull) of an ordered pair has either happened already or is still to come
	// (latejoin=1): then it is one more delivery that may arrive after the claims and announcements
	type c9Pair struct{ from, to *c9Inst }
	var lateMerges, latePairs []c9Pair
	for _, a := range w.insts {
		for _, b := range w.insts {
			if a != b {
				if verifParam("latejoin", 0) == 1 && verifChoose("first-state-exchange", 2) == 1 {
					lateMerges = append(lateMerges, c9Pair{a, b})
					latePairs = append(latePairs, c9Pair{a, b})
					continue
				}
				w.merge(a, b)
			}
		}
	}
	shard := history.ClusterShardID{ClusterID: 2, ShardID: 1}
	key := ClusterShardIDtoShortString(shard)
	// every instance claims the shard (a stream for it connects there); the claims race
	nClaims := verifParam("claimers", nInst)
	for i := 0; i < nClaims; i++ {
		in := w.insts[i]
		verifAction("claim")
		go in.sm.RegisterShard(shard)
	}
	verifQuiesce()
	verifQuiesce()
	// claim instants as recorded by each instance
	created := map[string]int64{}
	for _, in := range w.insts {
		in.sm.mutex.RLock()
		if si, ok := in.sm.localShards[key]; ok {
			created[in.name] = si.Created.UnixNano()
		}
		in.sm.mutex.RUnlock()
	}
	verifAssert(len(created) == nClaims, "every-claim-registered-locally")
	// the property presupposes that announcements reach every other instance: the instance with the
	// newest claim must have known all others when it claimed (announcements go to the instances whose
	// state has been merged). Older claimers may not have; their announcements are then simply not sent.
	{
		nw, nt := "", int64(-1)
		for n, t := range created {
			if t > nt {
				nw, nt = n, t
			}
		}
		for _, lp := range latePairs {
			if lp.to.name == nw {
				verifAssume(false)
			}
		}
		if len(latePairs) > 0 {
			verifReach("first-state-exchange-after-the-claims")
		}
	}
	// deliver pending announcements in symbolic order; an announcement may be duplicated once; up to
	// `merges` full-state syncs (push/pull) between any ordered pair may happen anywhere in between
	mergesLeft := verifParam("merges", 0)
	for d := 0; d < maxDeliveries+verifParam("merges", 0)+nInst*(nInst-1); d++ {
		var pending []*c9Packet
		for _, p := range w.net {
			if p.copies == 0 {
				pending = append(pending, p)
			}
		}
		if len(pending) == 0 && len(lateMerges) == 0 {
			break
		}
		nPairs := 0
		if mergesLeft > 0 {
			nPairs = nInst * (nInst - 1)
		}
		c := verifChoose("deliver", len(pending)+nPairs+len(lateMerges))
		if c >= len(pending)+nPairs {
			// a first state exchange that was still outstanding
			k := c - len(pending) - nPairs
			verifAction("first-state-exchange")
			w.merge(lateMerges[k].from, lateMerges[k].to)
			lateMerges = append(lateMerges[:k:k], lateMerges[k+1:]...)
			verifQuiesce()
			continue
		}
		if c >= len(pending) {
			// state sync a -> b
			k := c - len(pending)
			a := w.insts[k/(nInst-1)]
			bi := k % (nInst - 1)
			if bi >= k/(nInst-1) {
				bi++
			}
			verifAction("state-sync")
			w.merge(a, w.insts[bi])
			mergesLeft--
			verifReach("state-sync-between-announcements")
			verifQuiesce()
			continue
		}
		p := pending[c]
		verifAction("deliver")
		w.deliver(p)
		if verifParam("duplicates", 1) > 0 && verifChoose("duplicate", 2) == 1 {
			verifAction("duplicate")
			w.deliver(p)
		}
		verifQuiesce()
	}
	for _, p := range w.net {
		if p.copies == 0 {
			verifAssume(false) // delivery budget too small for this path: not a completed run
		}
	}
	if len(lateMerges) > 0 {
		verifAssume(false) // every pair exchanges state eventually
	}
	verifQuiesce()
	verifReach("all-announcements-delivered")
	// the newest claim
	newest, newestT := "", int64(-1)
	for n, t := range created {
		if t > newestT {
			newest, newestT = n, t
		}
	}
	var owners []string
	for _, in := range w.insts {
		if _, ok := in.sm.GetLocalShards()[key]; ok {
			owners = append(owners, in.name)
		}
	}
	sort.Strings(owners)
	verifAssert(len(owners) <= 1, "shard-owned-by-at-most-one-instance-after-convergence")
	verifAssert(len(owners) == 1 && owners[0] == newest, "shard-ends-up-owned-by-the-instance-with-the-newest-claim")
}

// verifHarness_C09_reclaim: claims made one after the other (so "newest" is unambiguous: the last
// one), including an instance claiming again while its earlier registration is still present, with
// announcements delivered in any order between and after the claims.
type c9Claim struct {
	in *c9Inst
	at time.Time
}

func verifHarness_C09_reclaim() {
	verifConfig("preempt", 0)
	nInst := verifParam("instances", 2)
	nClaims := verifParam("claims", 3)
	w := c9NewWorld(nInst)
	for _, a := range w.insts {
		for _, b := range w.insts {
			if a != b {
				w.merge(a, b)
			}
		}
	}
	shard := history.ClusterShardID{ClusterID: 2, ShardID: 1}
	key := ClusterShardIDtoShortString(shard)
	last := ""
	seen := map[string]bool{}
	var claims []c9Claim
	deliverSome := func(all bool) {
		for {
			var pending []*c9Packet
			for _, p := range w.net {
				if p.copies == 0 {
					pending = append(pending, p)
				}
			}
			if len(pending) == 0 {
				return
			}
			n := len(pending)
			if !all {
				n++ // or stop delivering for now
			}
			k := verifChoose("deliver", n)
			if k == len(pending) {
				return
			}
			verifAction("deliver")
			w.deliver(pending[k])
			verifQuiesce()
		}
	}
	for c := 0; c < nClaims; c++ {
		in := w.insts[verifChoose("claimer", nInst)]
		if seen[in.name] {
			verifReach("instance-claims-again")
			verifAction("reclaim")
		} else {
			verifAction("claim")
		}
		seen[in.name] = true
		last = in.name
		claims = append(claims, c9Claim{in, in.sm.RegisterShard(shard)})
		verifQuiesce()
		deliverSome(false)
	}
	deliverSome(true)
	verifQuiesce()
	// the stream behind an earlier claim may end only now: its teardown unregisters with the instant of
	// *its* registration, which must not touch a newer claim (on this or on any other instance)
	if len(claims) > 1 && verifChoose("late-teardown-of-an-earlier-claim", 2) == 1 {
		old := claims[verifChoose("which-earlier-claim", len(claims)-1)]
		verifAction("late-teardown")
		verifReach("late-teardown-of-an-earlier-claim")
		old.in.sm.UnregisterShard(shard, old.at)
		verifQuiesce()
		deliverSome(true)
		verifQuiesce()
	}
	verifReach("all-announcements-delivered")
	var owners []string
	for _, in := range w.insts {
		if _, ok := in.sm.GetLocalShards()[key]; ok {
			owners = append(owners, in.name)
		}
	}
	verifAssert(len(owners) == 1 && owners[0] == last, "shard-ends-up-owned-by-the-instance-with-the-newest-claim")
}

// verifHarness_C09_leave: an instance that left owns nothing in anyone's view, whatever the
// order of its last full-state merge and the leave event.
func verifHarness_C09_leave() {
	verifConfig("preempt", 0)
	w := c9NewWorld(2)
	a, b := w.insts[0], w.insts[1]
	shard := history.ClusterShardID{ClusterID: 2, ShardID: 1}
	b.sm.RegisterShard(shard)
	verifQuiesce()
	stale := b.sm.delegate.LocalState(false) // a push/pull exchange already in flight
	order := verifChoose("order", 2)
	b.left = true
	// memberlist reports a graceful leave (StateLeft) and a node declared dead by the failure detector
	// (StateDead) through the same callback
	node := &memberlist.Node{Name: b.name, State: memberlist.StateLeft}
	if verifChoose("how-it-left", 2) == 1 {
		node.State = memberlist.StateDead
		verifReach("peer-declared-dead")
	}
	if order == 0 {
		verifAction("merge-then-leave")
		a.sm.delegate.MergeRemoteState(stale, false)
		(&shardEventDelegate{manager: a.sm, logger: log.NewNoopLogger()}).NotifyLeave(node)
	} else {
		verifAction("leave-then-merge")
		(&shardEventDelegate{manager: a.sm, logger: log.NewNoopLogger()}).NotifyLeave(node)
		a.sm.delegate.MergeRemoteState(stale, false)
		verifReach("merge-delivered-after-leave")
	}
	verifQuiesce()
	remote, _ := a.sm.GetRemoteShardsForPeer("")
	_, still := remote[b.name]
	verifAssert(!still, "instance-that-left-owns-nothing")
	_, known := a.sm.getShardOwner(shard)
	verifAssert(!known, "no-owner-known-for-a-shard-whose-owner-left")
}

// ---- routing clause

type c9PeerStream struct {
	grpc.ServerStream
	got  int
	fail bool
}

func (s *c9PeerStream) Send(m *adminservice.StreamWorkflowReplicationMessagesResponse) error {
	if s.fail {
		return errors.New("verif: peer stream broken")
	}
	s.got++
	return nil
}
func (s *c9PeerStream) Recv() (*adminservice.StreamWorkflowReplicationMessagesRequest, error) {
	return nil, errors.New("unused")
}

// verifHarness_C09_route: from every combination of local channel present/absent x remote owner
// known/unknown x peer stream present/absent(/broken), a message addressed to a shard is handed to
// exactly one recipient and reported delivered, or to none and reported undelivered.
func verifHarness_C09_route() {
	verifConfig("preempt", 0)
	w := c9NewWorld(2)
	a, b := w.insts[0], w.insts[1]
	target := history.ClusterShardID{ClusterID: 2, ShardID: 1}
	source := history.ClusterShardID{ClusterID: 1, ShardID: 1}
	hasLocal := verifChoose("local-channel", 2) == 1
	ownerKnown := verifChoose("remote-owner-known", 2) == 1
	peerStream := verifChoose("peer-stream", 4) // 0 absent, 1 present, 2 present but broken, 3 the very first stream with that peer registers while the hand-off is waiting for it
	localCh := make(chan RoutedMessage, 4)
	if hasLocal {
		a.sm.SetRemoteSendChan(target, localCh)
	}
	if ownerKnown {
		b.sm.RegisterShard(target)
		verifQuiesce()
		w.merge(b, a)
	}
	ps := &c9PeerStream{fail: peerStream == 2}
	snd := &intraProxyStreamSender{logger: log.NewNoopLogger(), shardManager: a.sm, peerNodeName: b.name,
		targetShardID: target, sourceShardID: source, sourceStreamServer: ps}
	if peerStream == 1 || peerStream == 2 {
		a.sm.intraMgr.RegisterSender(b.name, target, source, snd)
	}
	msg := &RoutedMessage{SourceShard: source, Resp: &adminservice.StreamWorkflowReplicationMessagesResponse{
		Attributes: &adminservice.StreamWorkflowReplicationMessagesResponse_Messages{
			Messages: &replicationv1.WorkflowReplicationMessages{ExclusiveHighWatermark: 5}}}}
	var ok bool
	if peerStream == 3 {
		// the forward waits (up to 2s, polling) for the owner's stream to register; it registers 15ms in
		finished := false
		go func() {
			ok = a.sm.DeliverMessagesToShardOwner(target, msg, channel.NewShutdownOnce(), log.NewNoopLogger())
			finished = true
		}()
		verifQuiesce()
		a.sm.intraMgr.RegisterSender(b.name, target, source, snd)
		for k := 0; k < 12 && !finished; k++ {
			verifAdvance(250 * time.Millisecond)
			verifQuiesce()
		}
		verifAssert(finished, "hand-off-returns")
		verifReach("peer-stream-registered-during-the-wait")
	} else {
		ok = a.sm.DeliverMessagesToShardOwner(target, msg, channel.NewShutdownOnce(), log.NewNoopLogger())
	}
	recipients := len(localCh) + ps.got
	verifReach("routed")
	verifAssert(recipients <= 1, "message-never-delivered-twice")
	verifAssert(ok == (recipients == 1), "reported-delivered-iff-exactly-one-recipient-got-it")
	if hasLocal {
		verifAssert(len(localCh) == 1 && ps.got == 0, "local-stream-preferred-over-remote-owner")
	} else if ownerKnown && (peerStream == 1 || peerStream == 3) {
		verifAssert(ps.got == 1 && ok, "forwarded-to-the-known-remote-owner")
	} else {
		verifAssert(!ok && recipients == 0, "reported-undelivered-when-no-recipient-exists")
	}
}

// ---- routing clause, acknowledgement direction

type c9PeerClient struct {
	grpc.ClientStream
	got  int
	fail bool
}

func (s *c9PeerClient) Send(m *adminservice.StreamWorkflowReplicationMessagesRequest) error {
	if s.fail {
		return errors.New("verif: peer stream broken")
	}
	s.got++
	return nil
}
func (s *c9PeerClient) Recv() (*adminservice.StreamWorkflowReplicationMessagesResponse, error) {
	return nil, errors.New("unused")
}

// verifHarness_C09_routeAck: an acknowledgement addressed to a source shard, from every combination
// of local ack channel present/absent x remote owner known/unknown x intra-proxy receiver towards the
// owner absent / open / open-but-broken / registered-but-not-yet-open x forwarding allowed or not:
// handed to exactly one recipient and reported delivered, or to none and reported undelivered.
func verifHarness_C09_routeAck() {
	verifConfig("preempt", 0)
	w := c9NewWorld(2)
	a, b := w.insts[0], w.insts[1]
	target := history.ClusterShardID{ClusterID: 2, ShardID: 1}
	source := history.ClusterShardID{ClusterID: 1, ShardID: 1}
	hasLocal := verifChoose("local-ack-channel", 2) == 1
	ownerKnown := verifChoose("remote-owner-known", 2) == 1
	peer := verifChoose("peer-receiver", 4) // 0 absent, 1 open, 2 open but broken, 3 registered, stream not yet open
	allowForward := verifChoose("allow-forward", 2) == 1
	localCh := make(chan RoutedAck, 4)
	if hasLocal {
		a.sm.SetLocalAckChan(source, localCh)
	}
	if ownerKnown {
		b.sm.RegisterShard(source)
		verifQuiesce()
		w.merge(b, a)
	}
	pc := &c9PeerClient{fail: peer == 2}
	if peer != 0 {
		rcv := &intraProxyStreamReceiver{logger: log.NewNoopLogger(), shardManager: a.sm, intraMgr: a.sm.intraMgr, peerNodeName: b.name,
			targetShardID: target, sourceShardID: source}
		if peer != 3 {
			rcv.streamClient = pc
		} else {
			verifReach("receiver-registered-before-its-stream-is-open")
		}
		im := a.sm.intraMgr
		im.streamsMu.Lock()
		ps := im.peers[b.name]
		if ps == nil {
			ps = &peerState{receivers: map[peerStreamKey]*intraProxyStreamReceiver{}, senders: map[peerStreamKey]*intraProxyStreamSender{}, recvShutdown: map[peerStreamKey]channel.ShutdownOnce{}}
			im.peers[b.name] = ps
		}
		ps.receivers[peerStreamKey{targetShard: target, sourceShard: source}] = rcv
		im.streamsMu.Unlock()
	}
	ack := &RoutedAck{TargetShard: target, Req: &adminservice.StreamWorkflowReplicationMessagesRequest{
		Attributes: &adminservice.StreamWorkflowReplicationMessagesRequest_SyncReplicationState{
			SyncReplicationState: &replicationv1.SyncReplicationState{InclusiveLowWatermark: 7}}}}
	ok := a.sm.DeliverAckToShardOwner(source, ack, channel.NewShutdownOnce(), log.NewNoopLogger(), 7, allowForward)
	recipients := len(localCh) + pc.got
	verifReach("ack-routed")
	verifAssert(recipients <= 1, "ack-never-delivered-twice")
	verifAssert(ok == (recipients == 1), "ack-reported-delivered-iff-exactly-one-recipient-got-it")
	if hasLocal {
		verifAssert(len(localCh) == 1 && pc.got == 0, "ack:local-stream-preferred-over-remote-owner")
	} else if allowForward && ownerKnown && peer == 1 {
		verifAssert(pc.got == 1 && ok, "ack-forwarded-to-the-known-remote-owner")
	} else {
		verifAssert(!ok && recipients == 0, "ack-reported-undelivered-when-no-recipient-exists")
	}
}

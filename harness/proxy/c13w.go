package proxy

import (
	"go.temporal.io/server/common/log"

	"github.com/temporalio/s2s-proxy/config"
	"github.com/temporalio/s2s-proxy/interceptor"
)

// C13 (direction wiring + rejection at start-up): requests entering from the remote side are
// mapped remote->local and their responses local->remote, the opposite on the local side;
// a mapping list that is not one-to-one is rejected by the constructor.

type c13Rec struct{ req, resp map[string]string }

var c13Translators []c13Rec

func verifStub_NewNamespaceNameTranslator(logger log.Logger, reqMap, respMap map[string]string) interceptor.Translator {
	c13Translators = append(c13Translators, c13Rec{reqMap, respMap})
	return nil
}

func c13Names() []string { return []string{"", "a", "ab", "b", "c"} }

func verifHarness_C13_wiring() {
	names := c13Names()
	n := verifChoose("pairs", verifParam("maxpairs", 2)+1)
	var cfg config.ClusterConnConfig
	cfg.Name = "conn"
	cfg.Local.ConnectionType = config.ConnTypeTCP
	cfg.Remote.ConnectionType = config.ConnTypeTCP
	dup := false
	for i := 0; i < n; i++ {
		l := names[verifChoose("local-name", len(names))]
		r := names[verifChoose("remote-name", len(names))]
		for _, m := range cfg.NamespaceTranslation.Mappings {
			if m.Local == l || m.Remote == r {
				dup = true
			}
		}
		cfg.NamespaceTranslation.Mappings = append(cfg.NamespaceTranslation.Mappings, config.StringMapping{Local: l, Remote: r})
	}
	c13Translators = nil
	in, out, err := wrBuild(cfg)
	if dup {
		verifReach("non-injective-config")
		verifAssert(err != nil, "non-one-to-one-mapping-rejected-at-start-up")
		return
	}
	verifAssert(err == nil && in != nil && out != nil, "one-to-one-mapping-accepted")
	if err != nil {
		return
	}
	if n == 0 {
		verifAssert(len(c13Translators) == 0, "no-translator-without-mappings")
		return
	}
	verifReach("translators-built")
	verifAssert(len(c13Translators) == 2, "one-namespace-translator-per-server")
	if len(c13Translators) != 2 {
		return
	}
	inT, outT := c13Translators[0], c13Translators[1] // inbound server is built first
	for _, m := range cfg.NamespaceTranslation.Mappings {
		// inbound (remote-facing) server: requests remote->local, responses local->remote
		v, ok := inT.req[m.Remote]
		verifAssert(ok && v == m.Local, "inbound-requests-mapped-remote-to-local")
		v, ok = inT.resp[m.Local]
		verifAssert(ok && v == m.Remote, "inbound-responses-mapped-local-to-remote")
		// outbound (local-facing) server: the opposite
		v, ok = outT.req[m.Local]
		verifAssert(ok && v == m.Remote, "outbound-requests-mapped-local-to-remote")
		v, ok = outT.resp[m.Remote]
		verifAssert(ok && v == m.Local, "outbound-responses-mapped-remote-to-local")
	}
	verifAssert(len(inT.req) == n && len(inT.resp) == n && len(outT.req) == n && len(outT.resp) == n, "maps-contain-exactly-the-configured-pairs")
	// round trip through one server: response(request(x)) == x for mapped names, and for unmapped
	// names that are not themselves mapping targets
	x := names[verifChoose("probe", len(names))]
	y, mapped := inT.req[x]
	if !mapped {
		y = x
	}
	z, back := inT.resp[y]
	if !back {
		z = y
	}
	_, xIsTarget := inT.resp[x]
	if mapped || !xIsTarget {
		verifAssert(z == x, "round-trip-restores-the-original-name")
	}
}

package proxy

import (
	"context"
	"errors"
	"fmt"
	"io"
	"time"

	"go.temporal.io/server/api/adminservice/v1"
	replicationv1 "go.temporal.io/server/api/replication/v1"
	"go.temporal.io/server/client/history"
	"go.temporal.io/server/common/log"
	"google.golang.org/grpc"
	"google.golang.org/grpc/metadata"

	"github.com/temporalio/s2s-proxy/config"
)

// ---------------------------------------------------------------------------
// C06 — pass-through streams relay both directions faithfully and end together.

var errC06 = errors.New("verif: stream failure")

type c06Event struct {
	resp *adminservice.StreamWorkflowReplicationMessagesResponse
	req  *adminservice.StreamWorkflowReplicationMessagesRequest
	err  error
}

// fwInit is the initiating cluster's end (the server stream handed to the proxy handler).
type fwInit struct {
	grpc.ServerStream
	ctx      context.Context
	in       chan c06Event // what the initiator sends (acks) / how its side ends
	got      []*adminservice.StreamWorkflowReplicationMessagesResponse
	sendFail bool
	sendErr  error // what a failing Send reports (default errC06)
}

func (s *fwInit) Context() context.Context { return s.ctx }
func (s *fwInit) Recv() (*adminservice.StreamWorkflowReplicationMessagesRequest, error) {
	select {
	case ev := <-s.in:
		return ev.req, ev.err
	case <-s.ctx.Done():
		return nil, s.ctx.Err()
	}
}
func (s *fwInit) Send(m *adminservice.StreamWorkflowReplicationMessagesResponse) error {
	if s.sendFail {
		if s.sendErr != nil {
			return s.sendErr
		}
		return errC06
	}
	s.got = append(s.got, m)
	return nil
}

// fwSrc is the serving cluster's end (the client stream the proxy opens).
type fwSrc struct {
	grpc.ClientStream
	ctx             context.Context
	in              chan c06Event // what the source sends (replication messages) / how its side ends
	got             []*adminservice.StreamWorkflowReplicationMessagesRequest
	sendFail        bool
	sendErr         error // what a failing Send reports (default errC06); grpc client streams report io.EOF once the stream is done
	closeSend       int
	closeSendStalls bool
	sendBlocks      bool
	md              metadata.MD
	opened          bool
}

func (s *fwSrc) Context() context.Context { return s.ctx }
func (s *fwSrc) Recv() (*adminservice.StreamWorkflowReplicationMessagesResponse, error) {
	select {
	case ev := <-s.in:
		return ev.resp, ev.err
	case <-s.ctx.Done():
		return nil, s.ctx.Err()
	}
}
func (s *fwSrc) Send(m *adminservice.StreamWorkflowReplicationMessagesRequest) error {
	if s.sendBlocks {
		// flow control: the serving cluster is not reading; Send returns when the stream's context ends
		<-s.ctx.Done()
		return s.ctx.Err()
	}
	if s.sendFail {
		if s.sendErr != nil {
			return s.sendErr
		}
		return errC06
	}
	s.got = append(s.got, m)
	return nil
}
func (s *fwSrc) CloseSend() error {
	s.closeSend++
	if s.closeSendStalls {
		// a wedged transport: CloseSend only gives up when the stream's context is cancelled (the
		// forwarder guards this call with a one-second timeout for that reason)
		<-s.ctx.Done()
		return s.ctx.Err()
	}
	return nil
}

type fwAdminClient struct {
	adminservice.AdminServiceClient
	src        *fwSrc
	openErr    error
	openBlocks bool
}

func (c *fwAdminClient) StreamWorkflowReplicationMessages(ctx context.Context, opts ...grpc.CallOption) (adminservice.AdminService_StreamWorkflowReplicationMessagesClient, error) {
	if c.openErr != nil {
		return nil, c.openErr
	}
	if c.openBlocks {
		// no connection to the serving cluster available: the open waits until its context ends
		<-ctx.Done()
		return nil, ctx.Err()
	}
	c.src.ctx = ctx
	c.src.opened = true
	if md, ok := metadata.FromOutgoingContext(ctx); ok {
		c.src.md = md
	}
	return c.src, nil
}

func c06Resp(k int) *adminservice.StreamWorkflowReplicationMessagesResponse {
	return &adminservice.StreamWorkflowReplicationMessagesResponse{
		Attributes: &adminservice.StreamWorkflowReplicationMessagesResponse_Messages{
			Messages: &replicationv1.WorkflowReplicationMessages{
				// contents are arbitrary (symbolic): the relay must not look at them
				ReplicationTasks:       []*replicationv1.ReplicationTask{{SourceTaskId: verifNondetInt64("task-id")}},
				ExclusiveHighWatermark: verifNondetInt64("high-watermark"),
			},
		},
	}
}

func c06Req(k int) *adminservice.StreamWorkflowReplicationMessagesRequest {
	return &adminservice.StreamWorkflowReplicationMessagesRequest{
		Attributes: &adminservice.StreamWorkflowReplicationMessagesRequest_SyncReplicationState{
			// arbitrary (symbolic) watermark: successive sync states may repeat a value
			SyncReplicationState: &replicationv1.SyncReplicationState{InclusiveLowWatermark: verifNondetInt64("low-watermark")},
		},
	}
}

func verifHarness_C06_forwarder() {
	verifConfig("preempt", verifParam("preempt", 0))
	maxMsgs := verifParam("msgs", 3)
	initCtx, initCancel := context.WithCancel(metadata.NewIncomingContext(context.Background(), metadata.Pairs("k", "v")))
	ini := &fwInit{ctx: initCtx, in: make(chan c06Event, 8)}
	src := &fwSrc{in: make(chan c06Event, 8)}
	client := &fwAdminClient{src: src}
	returned := false
	var retErr error
	// mode 0: default pass-through; mode 1: LCM mode (shard ids remapped, then the same forwarder)
	scc, lcm := config.ShardCountConfig{}, LCMParameters{}
	if verifParam("mode", 0) == 1 {
		scc = config.ShardCountConfig{Mode: config.ShardCountLCM}
		lcm = LCMParameters{LCM: 6, TargetShardCount: 2}
		verifReach("lcm-mode")
	}
	openBlocks := verifParam("blocked", 0) == 1 && verifChoose("outgoing-open", 2) == 1
	client.openBlocks = openBlocks
	go func() {
		retErr = handleStream(ini, metadata.Pairs("a", "b"),
			history.ClusterShardID{ClusterID: 1, ShardID: 3}, history.ClusterShardID{ClusterID: 2, ShardID: 3},
			log.NewNoopLogger(), scc, lcm, RoutingParameters{},
			client, nil, nil, []string{"l"}, context.Background())
		returned = true
	}()
	verifQuiesce()
	if openBlocks {
		// the initiator goes away while the proxy is still waiting for a connection to the serving cluster
		verifAction("initiator-cancels-while-outgoing-open-is-blocked")
		initCancel()
		verifQuiesce()
		verifQuiesce()
		verifReach("blocked-open-abandoned")
		verifAssert(returned, "handler-returns-when-either-side-ends")
		verifAssert(verifLiveThreads() == 0, "no-relay-worker-left-running")
		return
	}

	nSrc, nInit := 0, 0
	ended := false
	for step := 0; step < 2*maxMsgs+1 && !ended; step++ {
		a := verifChoose("action", 3)
		switch a {
		case 0:
			if nSrc >= maxMsgs {
				verifAssume(false)
			}
			verifAction("source-message")
			m := c06Resp(nSrc)
			verifSnapshot(fmt.Sprintf("resp-%d", nSrc), m)
			src.in <- c06Event{resp: m}
			nSrc++
			verifQuiesce()
			verifAssert(len(ini.got) == nSrc, "replication-message-relayed-to-initiator")
			if len(ini.got) == nSrc {
				verifAssert(verifSameObject(ini.got[nSrc-1], m), "replication-messages-relayed-in-order")
				verifAssert(verifUnchangedExcept(fmt.Sprintf("resp-%d", nSrc-1), m), "replication-message-relayed-unmodified")
			}
		case 1:
			if nInit >= maxMsgs {
				verifAssume(false)
			}
			verifAction("initiator-message")
			m := c06Req(nInit)
			verifSnapshot(fmt.Sprintf("req-%d", nInit), m)
			ini.in <- c06Event{req: m}
			nInit++
			verifQuiesce()
			verifAssert(len(src.got) == nInit, "sync-state-relayed-to-source")
			if len(src.got) == nInit {
				verifAssert(verifSameObject(src.got[nInit-1], m), "sync-state-relayed-in-order")
				verifAssert(verifUnchangedExcept(fmt.Sprintf("req-%d", nInit-1), m), "sync-state-relayed-unmodified")
			}
		case 2:
			ended = true
			src.closeSendStalls = verifParam("stall", 0) == 1 && verifChoose("close-send", 2) == 1
			kind := verifChoose("ending", 11+verifParam("blocked", 0))
			switch kind {
			case 0:
				verifAction("source-eof")
				src.in <- c06Event{err: io.EOF}
			case 1:
				verifAction("source-error")
				src.in <- c06Event{err: errC06}
			case 2:
				verifAction("initiator-eof")
				ini.in <- c06Event{err: io.EOF}
			case 3:
				verifAction("initiator-error")
				ini.in <- c06Event{err: errC06}
			case 4:
				verifAction("context-cancelled")
				initCancel()
			case 5:
				verifAction("send-to-initiator-fails")
				ini.sendFail = true
				src.in <- c06Event{resp: c06Resp(9)}
			case 6:
				verifAction("send-to-source-fails")
				src.sendFail = true
				ini.in <- c06Event{req: c06Req(9)}
			case 7:
				verifAction("unknown-kind-from-source")
				src.in <- c06Event{resp: &adminservice.StreamWorkflowReplicationMessagesResponse{}}
			case 8:
				verifAction("unknown-kind-from-initiator")
				ini.in <- c06Event{req: &adminservice.StreamWorkflowReplicationMessagesRequest{}}
			case 9:
				// a grpc client stream whose peer is gone reports io.EOF from Send (the status is on Recv),
				// while its Recv side stays quiet
				verifAction("send-to-source-fails-with-eof")
				src.sendFail, src.sendErr = true, io.EOF
				ini.in <- c06Event{req: c06Req(9)}
			case 11:
				// the ack relay is stuck in a Send the serving cluster does not read; the initiator goes away
				verifAction("initiator-cancels-while-send-to-source-is-blocked")
				src.sendBlocks = true
				ini.in <- c06Event{req: c06Req(9)}
				verifQuiesce()
				initCancel()
				verifReach("blocked-send-abandoned")
			case 10:
				verifAction("send-to-initiator-fails-with-eof")
				ini.sendFail, ini.sendErr = true, io.EOF
				src.in <- c06Event{resp: c06Resp(9)}
			}
		}
	}
	if !ended {
		return
	}
	verifQuiesce()
	verifQuiesce()
	if src.closeSendStalls {
		// the forwarder's own one-second guard on CloseSend expires
		verifAdvance(1100 * time.Millisecond)
		verifQuiesce()
		verifQuiesce()
		verifReach("close-send-stalled")
	}
	verifReach("stream-ended")
	verifAssert(returned, "handler-returns-when-either-side-ends")
	// gRPC cancels the server stream's context when the handler returns
	initCancel()
	verifQuiesce()
	verifQuiesce()
	verifAssert(src.ctx != nil && src.ctx.Err() != nil, "outgoing-stream-context-cancelled-on-exit")
	verifAssert(src.closeSend == 1, "send-side-of-source-stream-closed-exactly-once")
	verifAssert(verifLiveThreads() == 0, "no-relay-worker-left-running")
	_ = retErr
}

// verifHarness_C06_twoStreams: two pass-through streams reading the same source shard (the initiator
// has more shards than the source, or a stream is re-established while the old one winds down) with
// the real stream tracker (not the observability no-op): when one of them ends, the other keeps
// relaying in both directions and its handler returns when it ends - bookkeeping shared between
// streams must not wedge them.
func verifHarness_C06_twoStreams() {
	verifConfig("preempt", verifParam("preempt", 0))
	type stream struct {
		ini      *fwInit
		src      *fwSrc
		cancel   context.CancelFunc
		returned bool
	}
	mk := func(targetShard int32) *stream {
		ctx, cancel := context.WithCancel(metadata.NewIncomingContext(context.Background(), metadata.Pairs("k", "v")))
		st := &stream{ini: &fwInit{ctx: ctx, in: make(chan c06Event, 8)}, src: &fwSrc{in: make(chan c06Event, 8)}, cancel: cancel}
		client := &fwAdminClient{src: st.src}
		go func() {
			_ = handleStream(st.ini, metadata.Pairs("a", "b"),
				history.ClusterShardID{ClusterID: 1, ShardID: 3}, history.ClusterShardID{ClusterID: 2, ShardID: targetShard},
				log.NewNoopLogger(), config.ShardCountConfig{}, LCMParameters{}, RoutingParameters{},
				client, nil, nil, []string{"l"}, context.Background())
			st.returned = true
		}()
		return st
	}
	a := mk(3)
	verifQuiesce()
	b := mk(7)
	verifQuiesce()
	relay := func(st *stream, k int, label string) {
		m := c06Resp(k)
		n := len(st.ini.got)
		st.src.in <- c06Event{resp: m}
		verifQuiesce()
		verifAssert(len(st.ini.got) == n+1 && verifSameObject(st.ini.got[n], m), label+":replication-message-relayed-to-initiator")
		r := c06Req(k)
		n = len(st.src.got)
		st.ini.in <- c06Event{req: r}
		verifQuiesce()
		verifAssert(len(st.src.got) == n+1 && verifSameObject(st.src.got[n], r), label+":sync-state-relayed-to-source")
	}
	relay(a, 0, "both-live:first")
	relay(b, 1, "both-live:second")
	// one of them ends (either one, either way)
	first, second := a, b
	if verifChoose("which-ends", 2) == 1 {
		first, second = b, a
	}
	verifAction("one-stream-ends")
	if verifChoose("how", 2) == 0 {
		first.src.in <- c06Event{err: io.EOF}
	} else {
		first.ini.in <- c06Event{err: io.EOF}
	}
	verifQuiesce()
	verifQuiesce()
	verifAssert(first.returned, "two-streams:ended-stream's-handler-returned")
	first.cancel()
	verifQuiesce()
	verifReach("sibling-stream-ended")
	// the survivor keeps relaying (several messages) and ends cleanly
	for k := 2; k < 5; k++ {
		relay(second, k, "survivor")
	}
	second.src.in <- c06Event{err: io.EOF}
	verifQuiesce()
	verifQuiesce()
	verifAssert(second.returned, "two-streams:survivor's-handler-returned")
	second.cancel()
	verifQuiesce()
	verifAssert(verifLiveThreads() == 0, "two-streams:no-relay-worker-left-running")
}

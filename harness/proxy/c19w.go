package proxy

import (
	"context"
	"crypto/tls"
	"errors"

	grpcprom "github.com/grpc-ecosystem/go-grpc-middleware/providers/prometheus"
	"go.temporal.io/server/common/log"
	"google.golang.org/grpc"
	"google.golang.org/grpc/credentials"

	"github.com/temporalio/s2s-proxy/config"
	"github.com/temporalio/s2s-proxy/encryption"
	"github.com/temporalio/s2s-proxy/transport/grpcutil"
)

// C19 (wiring clause, proxy/cluster_connection.go): every TCP listener is built from *its own*
// TLS section (the serving cluster definition's tcpServer.tls), every TCP dialer from its own
// (tcpClient.tls), mux transports receive the definition of their own side, a TLS section that
// is enabled always ends in credentials on the server, and a TLS configuration error fails
// start-up instead of leaving a plaintext listener. What the assembled tls.Config enforces is
// the subject of the ./encryption entries; here GetServerTLSConfig is a recording stub that may fail.

type c19Creds struct {
	credentials.TransportCredentials
	cfg *tls.Config
}

type c19Dial struct {
	addr  string
	tls   encryption.TLSConfig
	label string
}

var c19Dials []c19Dial
var c19FailServerTLS int // 1-based index of the GetServerTLSConfig call that fails; 0 = none
var c19ServerTLSCalls int

func verifStub_GetServerTLSConfig(serverConfig encryption.TLSConfig, logger log.Logger) (*tls.Config, error) {
	c19ServerTLSCalls++
	if c19ServerTLSCalls == c19FailServerTLS {
		return nil, errors.New("verif: tls configuration error")
	}
	out := &tls.Config{ServerName: serverConfig.CertificatePath}
	wrCur.tls = append(wrCur.tls, serverConfig)
	wrCur.tlsOut = append(wrCur.tlsOut, out)
	return out, nil
}

func verifStub_NewTLS(c *tls.Config) credentials.TransportCredentials { return &c19Creds{cfg: c} }

func verifStub_Creds(c credentials.TransportCredentials) grpc.ServerOption {
	wrCur.creds = append(wrCur.creds, c)
	return nil
}

func verifStub_buildTLSTCPClient(lifetime context.Context, serverAddress string, tlsCfg encryption.TLSConfig, metricLabel string) (closableClientConn, error) {
	c19Dials = append(c19Dials, c19Dial{serverAddress, tlsCfg, metricLabel})
	return &wrClientConn{label: metricLabel}, nil
}

func verifStub_NewMultiClientConn(lifetime context.Context, name string, opts ...grpc.DialOption) (*grpcutil.MultiClientConn, error) {
	return &grpcutil.MultiClientConn{}, nil
}

func verifStub_MakeDialOptions(tlsConfig *tls.Config, clientMetrics *grpcprom.ClientMetrics) []grpc.DialOption {
	return nil
}

// c19Section builds one TLS section that is recognisable by its strings.
func c19Section(tag string, shape int) encryption.TLSConfig {
	switch shape {
	case 1: // certificate + CA: verification on
		return encryption.TLSConfig{CertificatePath: tag + ".pem", KeyPath: tag + ".key", RemoteCAPath: tag + "-ca.pem"}
	case 2: // verification explicitly skipped
		return encryption.TLSConfig{CertificatePath: tag + ".pem", KeyPath: tag + ".key", CAServerName: tag + "-name", SkipCAVerification: true}
	case 3: // name only (a dialer's section)
		return encryption.TLSConfig{CAServerName: tag + "-name", RemoteCAPath: tag + "-ca.pem"}
	}
	return encryption.TLSConfig{} // TLS off
}

func c19Definition(side string) config.ClusterDefinition {
	var d config.ClusterDefinition
	d.ConnectionType = wrConnType(side + "-transport")
	d.TcpServer.ConnectionString = side + "-listen:1"
	d.TcpClient.ConnectionString = side + "-dial:2"
	d.MuxAddressInfo.ConnectionString = side + "-mux:3"
	d.MuxCount = 1
	d.TcpServer.TLSConfig = c19Section(side+"-server", verifChoose(side+"-server-tls", 3))
	d.TcpClient.TLSConfig = c19Section(side+"-client", verifChoose(side+"-client-tls", 4))
	d.MuxAddressInfo.TLSConfig = c19Section(side+"-mux", 1)
	return d
}

func verifHarness_C19_wiring() {
	var cfg config.ClusterConnConfig
	cfg.Name = "conn"
	cfg.Local = c19Definition("local")
	cfg.Remote = c19Definition("remote")
	c19Dials, c19ServerTLSCalls = nil, 0
	c19FailServerTLS = verifChoose("server-tls-config-fails", 3) // none, first, second call
	expectCalls := 0
	for _, d := range []config.ClusterDefinition{cfg.Remote, cfg.Local} {
		if d.ConnectionType == config.ConnTypeTCP && d.TcpServer.TLSConfig.IsEnabled() {
			expectCalls++
		}
	}
	in, out, err := wrBuild(cfg)
	if c19FailServerTLS != 0 && c19FailServerTLS <= expectCalls {
		verifReach("tls-config-error")
		verifAssert(err != nil, "tls-configuration-error-fails-start-up(no-plaintext-fallback)")
		return
	}
	verifAssert(err == nil && in != nil && out != nil, "cluster-connection-built")
	if err != nil || in == nil || out == nil {
		return
	}
	verifAssert(c19ServerTLSCalls == expectCalls, "server-tls-config-built-exactly-for-the-enabled-tcp-listeners")
	muxSeen := 0
	check := func(srv *wrServer, def config.ClusterDefinition, dir string) {
		if def.ConnectionType != config.ConnTypeTCP {
			// TLS is the mux transport's business: the gRPC server on top carries none, and the mux
			// manager is given the definition of this side (its muxAddressInfo.tls guards the listener)
			verifReach("mux-side")
			verifAssert(len(srv.tls) == 0 && len(srv.creds) == 0, "grpc-server-on-mux-has-no-tls-of-its-own")
			found := false
			for _, m := range wrMuxDefs {
				if m.MuxAddressInfo.ConnectionString == def.MuxAddressInfo.ConnectionString {
					found = true
					verifAssert(m.MuxAddressInfo.TLSConfig == def.MuxAddressInfo.TLSConfig && m.ConnectionType == def.ConnectionType,
						"mux-manager-gets-its-own-sides-tls-section-and-role")
				}
			}
			verifAssert(found, "mux-manager-built-for-this-side")
			muxSeen++
			return
		}
		section := def.TcpServer.TLSConfig
		if !section.IsEnabled() {
			verifReach("tcp-listener-tls-off")
			verifAssert(len(srv.tls) == 0 && len(srv.creds) == 0, "tls-off-listener-has-no-credentials")
			return
		}
		verifReach("tcp-listener-tls-on")
		verifAssert(len(srv.tls) == 1, "one-tls-config-per-listener")
		if len(srv.tls) != 1 {
			return
		}
		verifAssert(srv.tls[0] == section, "tcp-listener-built-from-its-own-tcpServer-tls-section")
		verifAssert(len(srv.creds) == 1, "tls-enabled-listener-carries-credentials")
		if len(srv.creds) == 1 {
			c, ok := srv.creds[0].(*c19Creds)
			verifAssert(ok && c.cfg == srv.tlsOut[0], "credentials-are-the-config-built-from-that-section")
		}
	}
	check(in, cfg.Remote, "inbound")  // the inbound server faces the remote cluster
	check(out, cfg.Local, "outbound") // the outbound server faces the local cluster
	verifAssert(len(wrMuxDefs) == muxSeen, "no-extra-mux-managers")

	// dialers: the inbound client dials the local cluster, the outbound client the remote one
	want := 0
	for _, side := range []struct {
		def   config.ClusterDefinition
		label string
	}{{cfg.Local, "inbound"}, {cfg.Remote, "outbound"}} {
		if side.def.ConnectionType != config.ConnTypeTCP {
			continue
		}
		want++
		found := false
		for _, d := range c19Dials {
			if d.label == side.label {
				found = true
				verifAssert(d.tls == side.def.TcpClient.TLSConfig, "tcp-dialer-built-from-its-own-tcpClient-tls-section")
				verifAssert(d.addr == side.def.TcpClient.ConnectionString, "tcp-dialer-dials-its-own-address")
			}
		}
		verifAssert(found, "tcp-dialer-built-for-this-side")
		verifReach("tcp-dialer")
	}
	verifAssert(len(c19Dials) == want, "no-extra-dialers")
}

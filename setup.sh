#!/bin/bash
# builds the engine offline from the module cache
set -e
DIR="$(cd "$(dirname "$0")" && pwd)"
export GOTOOLCHAIN=local PATH=/opt/veriftools/go1.26.8/bin:$PATH GOFLAGS=-mod=mod GOPROXY=off GOSUMDB=off
mkdir -p "$DIR/bin" "$DIR/evidence" "$DIR/replays"
cd "$DIR/engine" && go build -o "$DIR/bin/gosx" .
echo "gosx built"

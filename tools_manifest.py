#!/usr/bin/env python3
# regenerates MANIFEST.json from the claim table below (run after adding a property to checks.json)
import json
props=[json.loads(l) for l in open('/verif/properties.jsonl')]
ids=[p['id'] for p in props]
checks_cfg=json.load(open('/verif/checks.json'))
T="bounded symbolic execution of the real code (go/ssa) + SMT (z3); "
claimed={
 "C01": dict(text="The real receiver/sender Run loops, ring buffer and shardManagerImpl are executed symbolically against fake source/target streams; task ids and watermarks are symbolic, the environment schedule (batches, watermarks, which target acks how far) and task->shard assignment are case-split; at every ack sent to a source the solver proves that every task below it was confirmed by its target. Counterexamples are replayed natively (real goroutines).", note="Bounds: 1-2 sources x 2-3 targets, <=4 (quick) / 5 (thorough) environment actions, <=2 tasks per batch, run-to-block scheduling (P=0). No stream failures (C04). Trusted: go/ssa, gosx, z3, the environment model in harness/proxy/common_routing.go.", technique=T+"environment-action case split, symbolic ids/watermarks, ghost confirmation oracle"),
 "C02": dict(text="Same symbolic environment as C01; at every message a target stream receives the solver checks a transcription of Temporal's ExecutableTaskTracker accepts it (ids increase, high watermark above last id and above earlier ones), the task is on the shard owning its workflow, appears once, in source order, with both id fields rewritten to the same proxy id and the rest of the payload unchanged (object-graph snapshot).", note="Bounds as C01 (<=3-4 actions), one late-connecting target, two sources feeding one target. Keep-alive messages not included in quick.", technique=T+"tracker-model oracle at every target Send, object-graph snapshot comparison"),
 "C03": dict(text="Safety (monotone, bounded by the last source high watermark) asserted at every ack reaching a source over the C01 schedule space; bounded liveness: after any symbolic prefix a fair drain phase (source watermark, all targets ack everything, clock advance) of <=2-3 rounds must end with the source holding an ack equal to its final high watermark.", note="'Eventually' is claimed only as 'within the drain phase'. Channel capacities scaled to 2 only in thorough. Trusted as C01.", technique=T+"safety assertions at every ack + bounded-liveness drain phase"),
 "C05": dict(text="Bounded symbolic execution of the real ring-buffer methods: one inductive step from an arbitrary valid state (symbolic head/size/start/contents, capacity <=4, <=6 thorough) plus operation histories from empty (<=5 ops, <=7 thorough); every assertion is discharged by z3 for all values on each path; counterexamples are replayed natively with go test.", note="Capacities above the bound and gaps >2 are outside the claim; ids drawn from a 3x3 shard universe; trusted: go/ssa, the gosx interpreter, z3.", technique=T+"inductive step from arbitrary valid state and bounded histories vs. reference model"),
 "C07": dict(text="Per enumerated (local, remote) shard-count pair the real common.LCM/GCD, mapShardIDUnique and Temporal's MapShardID are executed with a symbolic LCM shard id and a symbolic 32-bit workflow hash; the solver proves range, no panic, and that the forwarded shard owns every workflow hashing to the LCM shard, for both directions.", note="Pairs: all <=16 quick / <=32 thorough (+powers of two and composites up to 16384 in thorough). Integer encoding of the bit-vector terms (wrap-around kept, interval-simplified) because bvurem by non-power-of-two constants stalls bit-blasting. DescribeCluster/handleStream wiring added separately.", technique=T+"pair enumeration with symbolic shard id and hash, integer encoding of machine arithmetic"),
 "C20": dict(text="ReplicationStreamObserver.ReportStreamValue is executed with an arbitrary table length (abstract slice), any int32 index and delta; the solver proves no exit path (including panics) leaves the observer lock held, no panic occurs, and a following well-formed report is served.", note="Stream-handler level (metadata decode, three modes) covered by a separate entry when present in checks.json. Table contents unmodelled. Memory cost of huge legitimate ids outside the claim.", technique=T+"full 32-bit symbolic index over an abstract-length table, lock-state assertion on all exits"),
}
checks=[]
for i in ids:
    if i in claimed and i in checks_cfg:
        c=claimed[i]
        checks.append({"property_id":i,"quick_cmd":"./check %s --tier quick"%i,"thorough_cmd":"./check %s --tier thorough"%i,
          "evidence_file":"/verif/evidence/%s.json"%i,"replay_cmd_template":"./check %s --replay {path}"%i,"engine":"gosx",
          "level_claimed":{"category":"model_checking","text":c["text"],"design_ref":"DESIGN.md §4 "+i},"level_note":c["note"],"technique":c["technique"]})
na=[]
for i in ids:
    if i in claimed and i in checks_cfg: continue
    if i=="C12":
        na.append({"property_id":i,"reason":"reflective walk over protobuf descriptors (reflect, keilerkonzept/visit, protobuf codec) cannot be encoded by the SSA symbolic executor and has no symbolic value space; see DESIGN.md §4 C12"})
    else:
        na.append({"property_id":i,"reason":"check not built yet at this commit (planned, see DESIGN.md §4); nothing is claimed for it"})
m={"version":1,"setup_cmd":"./setup.sh",
 "hooks":{"guard":"verif","enable":"none needed: harnesses are injected by go/packages overlay and go test -overlay, nothing is written under /repo","baseline_off_cmd":"cd /repo && GOFLAGS=-mod=mod GOPROXY=off go test -vet=off -count=1 -timeout 25m ./...","source_commits":[],"add_only":True},
 "engines":[{"name":"gosx","path":"/verif/engine","serves_properties":[c["property_id"] for c in checks],"kind_free_text":"symbolic executor for go/ssa (x/tools v0.50.0) with cooperative threads, decision-prefix DFS, z3 back end (bit-vector or interval-simplified integer encoding); native go test replay of counterexamples"}],
 "checks":checks,"not_applicable":na,
 "notes":"Exit codes: 0 held / 1 VIOLATION (replayed) / 2 INCONCLUSIVE (unsupported construct, bound exceeded, solver unknown, vacuity marker unreached). known_findings.json lists fixed and open findings."}
json.dump(m,open('/verif/MANIFEST.json','w'),indent=1)
print("claimed:",[c["property_id"] for c in checks])

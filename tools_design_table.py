#!/usr/bin/env python3
# rewrites the "Per-property checks as registered" table of DESIGN.md from checks.json
import json,re,collections
c=json.load(open('/verif/checks.json'),object_pairs_hook=collections.OrderedDict)
rows=[]
for pid in sorted(c):
    pc=c[pid]
    pkgs=[pc.get('pkg','')]
    ents=[]
    replays=set()
    for e in pc['entries']:
        if e.get('pkg') and e['pkg'] not in pkgs: pkgs.append(e['pkg'])
        q=e.get('quick') or {}
        t=e.get('thorough') or {}
        name=e['name'].replace('verifHarness_','')
        tag=''
        if e.get('skip_tier')=='quick': tag=' [thorough only]'
        if e.get('skip_tier')=='thorough': tag=' [quick only]'
        qs=','.join('%s=%s'%(k,q[k]) for k in sorted(q))
        ts=','.join('%s=%s'%(k,t[k]) for k in sorted(t))
        s='%s%s(%s'%(name,tag,qs)
        if ts: s+=' → '+ts
        s+=')'
        ents.append(s)
        replays.add(e.get('replay') or 'native')
    mode={'':'bit-vector, incremental','int':'int','int-fresh':'int-fresh','fresh':'bit-vector, fresh'}.get(pc.get('solver_mode',''),pc.get('solver_mode',''))
    rows.append('| %s | %s | %s | %s | %s |'%(pid,' '.join(pkgs),'; '.join(ents),mode,'/'.join(sorted(replays))))
hdr='| id | package(s) | entries (quick params → thorough overrides) | solver mode | replay |\n|---|---|---|---|---|\n'
d=open('/verif/DESIGN.md').read()
start=d.index('### Per-property checks as registered')
end=d.index('### Genuine defects found')
d=d[:start]+'### Per-property checks as registered (generated from checks.json by tools_design_table.py)\n\n'+hdr+'\n'.join(rows)+'\n\n'+d[end:]
open('/verif/DESIGN.md','w').write(d)
print(len(rows),'rows')

#!/bin/bash
# applies every kept seeded change to a private scratch worktree of /repo in turn, runs the property's quick
# check against it (VERIF_REPO), expects a VIOLATION (exit 1), and reverts. Seeds marked NOT DETECTED in
# meta.json (outside the claim) are expected to pass. STREAMS (default 3) worktrees run in parallel, each
# owning a disjoint set of properties (so evidence/replay files never collide). /repo itself is not touched.
# NOTE: the runs overwrite evidence/*.json with results for mutated trees: regenerate evidence afterwards.
cd "$(dirname "$0")"
OUT=${1:-seed_regression.txt}; STREAMS=${STREAMS:-3}
[ -n "$(git -C /repo status --porcelain)" ] && { echo "/repo not clean"; exit 2; }
./setup.sh >/dev/null 2>&1
run_stream() {
  k=$1; WT=/tmp/wt_seedreg_$k
  git -C /repo worktree remove --force $WT 2>/dev/null
  git -C /repo worktree add -q $WT HEAD || return
  : > $OUT.$k
  for d in seeded/*/; do
    n=$(basename $d); id=${n%[b-k]}; num=$((10#${id#C}))
    [ $((num % STREAMS)) -eq $k ] || continue
    [ -n "$ONLY" ] && ! echo " $ONLY " | grep -q " $n " && continue
    git -C $WT apply /verif/$d/patch.diff || { echo "$n PATCH-FAILS" >> $OUT.$k; continue; }
    s=$(date +%s); VERIF_REPO=$WT VERIF_NO_SAMPLES=1 ./check $id > /root/seedreg_$n.log 2>&1; rc=$?; e=$(date +%s)
    git -C $WT checkout -- . ; git -C $WT clean -fdq
    exp=1; grep -q "NOT DETECTED" $d/meta.json 2>/dev/null && exp=0
    st=OK; [ $rc -ne $exp ] && st=UNEXPECTED
    echo "$n property=$id exit=$rc expected=$exp $st wall=$((e-s))s $(grep -m1 '^VIOLATION' /root/seedreg_$n.log | cut -c1-80)" >> $OUT.$k
  done
  git -C /repo worktree remove --force $WT
}
for k in $(seq 0 $((STREAMS-1))); do run_stream $k & done
wait
cat $OUT.* | sort > $OUT; rm -f $OUT.*
cat $OUT

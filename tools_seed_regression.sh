#!/bin/bash
# applies every kept seeded change to a private scratch worktree of /repo in turn, runs the property's quick
# check against it (VERIF_REPO), expects a VIOLATION (exit 1), and reverts. Seeds marked NOT DETECTED in
# meta.json (outside the claim) are expected to pass. Several worktrees run in parallel, each owning a
# disjoint group of properties (so evidence/replay files never collide). /repo itself is not touched.
# NOTE: the runs overwrite evidence/*.json with results for mutated trees: regenerate evidence afterwards.
cd "$(dirname "$0")"
OUT=${1:-seed_regression.txt}
[ -n "$(git -C /repo status --porcelain)" ] && { echo "/repo not clean"; exit 2; }
./setup.sh >/dev/null 2>&1
# groups balanced by the wall time of the properties' quick checks
GROUPS_DEFAULT="C04|C01 C10|C02 C03 C20|C06 C08 C05 C09 C07|C11 C12 C13 C14 C15 C16 C17 C18 C19"
IFS='|' read -ra GRP <<< "${SEED_GROUPS:-$GROUPS_DEFAULT}"
run_stream() {
  k=$1; props=" $2 "; WT=/tmp/wt_seedreg_$k
  git -C /repo worktree remove --force $WT 2>/dev/null
  git -C /repo worktree add -q $WT HEAD || return
  : > $OUT.$k
  for d in seeded/*/; do
    n=$(basename $d); id=${n%[b-k]}; grp=$id
    # a seed written for one property may be caught by another property's check (meta.json "check_property")
    cp_=$(sed -n 's/.*"check_property": *"\(C[0-9][0-9]\)".*/\1/p' $d/meta.json 2>/dev/null); [ -n "$cp_" ] && id=$cp_
    case "$props" in *" $grp "*) ;; *) continue;; esac
    [ -n "$ONLY" ] && ! echo " $ONLY " | grep -q " $n " && continue
    git -C $WT apply /verif/$d/patch.diff || { echo "$n PATCH-FAILS" >> $OUT.$k; continue; }
    s=$(date +%s); VERIF_REPO=$WT VERIF_NO_SAMPLES=1 VERIF_FAILFAST=1 VERIF_MEMLIMIT_GB=8 ./check $id > /root/seedreg_$n.log 2>&1; rc=$?; e=$(date +%s)
    git -C $WT checkout -- . ; git -C $WT clean -fdq
    exp=1; grep -q "NOT DETECTED\|NEUTRALISED" $d/meta.json 2>/dev/null && exp=0
    st=OK; [ $rc -ne $exp ] && st=UNEXPECTED
    echo "$n property=$id exit=$rc expected=$exp $st wall=$((e-s))s $(grep -m1 '^VIOLATION' /root/seedreg_$n.log | cut -c1-80)" >> $OUT.$k
  done
  git -C /repo worktree remove --force $WT
}
k=0
for g in "${GRP[@]}"; do run_stream $k "$g" & k=$((k+1)); done
wait
cat $OUT.* | sort > $OUT; rm -f $OUT.*
cat $OUT

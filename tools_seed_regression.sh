#!/bin/bash
# applies every kept seeded change to /repo in turn, runs the property's quick check, expects a VIOLATION
# (exit 1), and reverts. Seeds marked NOT DETECTED in meta.json (outside the claim) are expected to pass.
cd "$(dirname "$0")"
[ -n "$(git -C /repo status --porcelain)" ] && { echo "/repo not clean"; exit 2; }
OUT=${1:-seed_regression.txt}; : > $OUT
for d in seeded/*/; do
  n=$(basename $d); id=${n%[bcdefgh]}
  git -C /repo apply /verif/$d/patch.diff || { echo "$n PATCH-FAILS" >> $OUT; continue; }
  s=$(date +%s); VERIF_NO_SAMPLES=1 ./check $id > /tmp/seedreg_$n.log 2>&1; rc=$?; e=$(date +%s)
  git -C /repo checkout -- .
  exp=1; grep -q "NOT DETECTED" $d/meta.json 2>/dev/null && exp=0
  st=OK; [ $rc -ne $exp ] && st=UNEXPECTED
  echo "$n property=$id exit=$rc expected=$exp $st wall=$((e-s))s $(grep -m1 '^VIOLATION' /tmp/seedreg_$n.log | cut -c1-80)" >> $OUT
done
cat $OUT

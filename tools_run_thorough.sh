#!/bin/bash
# runs every claimed property's thorough command sequentially and records exit code and wall time
cd "$(dirname "$0")"
./setup.sh >/dev/null || exit 2
OUT=${1:-thorough_results.txt}
: > $OUT
for id in ${PROPS:-C20 C19 C18 C17 C16 C15 C14 C13 C12 C11 C07 C09 C08 C06 C10 C05 C02 C03 C01 C04}; do
  s=$(date +%s)
  ./check $id --tier thorough > thorough_$id.log 2>&1
  rc=$?
  e=$(date +%s)
  echo "$id exit=$rc wall=$((e-s))s $(grep -c '^INCONCLUSIVE' thorough_$id.log) inconclusive lines; $(tail -1 thorough_$id.log | cut -c1-160)" >> $OUT
done
cat $OUT

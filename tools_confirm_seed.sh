#!/bin/bash
# usage: tools_confirm_seed.sh <ID> <pkgdir> : confirm a seeded change in a fresh scratch worktree
# (compiles, existing tests pass, demo fails with the change and passes without), then store it under /verif/seeded/<ID>/
ID=$1; SEED=${3:-/tmp/seed_$ID}; NAME=${4:-$ID}
PD=$(head -1 $SEED/demo_test.go | sed -n 's#^// package-dir: *##p')
PKG=${2:-./${PD:-proxy}}
export GOFLAGS=-mod=mod GOPROXY=off
WT=/tmp/confirm_$NAME
cd /repo && git worktree add -q $WT HEAD || exit 1
cd $WT
git apply $SEED/patch.diff || { echo "PATCH DOES NOT APPLY"; cd /repo; git worktree remove --force $WT; exit 1; }
go build ./... || { echo "BUILD FAILS"; cd /repo; git worktree remove --force $WT; exit 1; }
EXIST=$(timeout 900 go test -vet=off -count=1 -timeout 600s $PKG 2>&1 | tail -1)
cp $SEED/demo_test.go $WT/${PKG#./}/zz_seed_demo_test.go
WITH=$(timeout 600 go test -vet=off -count=1 -timeout 300s -run 'Seed|Demo|ProxyIDRing' $PKG 2>&1 | tail -1)
git apply -R $SEED/patch.diff
WITHOUT=$(timeout 600 go test -vet=off -count=1 -timeout 300s -run 'Seed|Demo|ProxyIDRing' $PKG 2>&1 | tail -1)
echo "existing tests with change: $EXIST"
echo "demo with change:           $WITH"
echo "demo without change:        $WITHOUT"
cd /repo && git worktree remove --force $WT
case "$EXIST" in ok*) ;; *) echo "NOT KEPT (existing tests fail)"; exit 1;; esac
case "$WITH" in ok*) echo "NOT KEPT (demo passes with change)"; exit 1;; esac
case "$WITHOUT" in ok*) ;; *) echo "NOT KEPT (demo fails without change)"; exit 1;; esac
mkdir -p /verif/seeded/$NAME && cp $SEED/patch.diff /verif/seeded/$NAME/patch.diff && cp $SEED/demo_test.go /verif/seeded/$NAME/demo_test.go.txt && cp $SEED/NOTES.md /verif/seeded/$NAME/NOTES.md 2>/dev/null
echo "KEPT in /verif/seeded/$NAME (existing: $EXIST | with: $WITH | without: $WITHOUT)"

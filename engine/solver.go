package main

import (
	"bufio"
	"fmt"
	"io"
	"os/exec"
	"strconv"
	"strings"
	"time"
)

type SatResult int

const (
	Unsat SatResult = iota
	Sat
	Unknown
)

func (r SatResult) String() string { return [...]string{"unsat", "sat", "unknown"}[r] }

// Solver drives one long-lived SMT solver process over stdin/stdout.
type Solver struct {
	bin     []string
	cmd     *exec.Cmd
	in      io.WriteCloser
	out     *bufio.Reader
	emitted map[int]bool
	decl    map[string]bool
	Queries int
	Time    time.Duration
	Errors  []string
	log     io.Writer
	// Fresh mode: no push/pop; every check re-sends the whole path condition
	// after (reset), so z3 uses its full (non-incremental) tactic pipeline.
	IntMode  bool // integer encoding (see intenc.go)
	Fresh    bool
	asserted []*Term
	inScope  bool
	ie       *ienc
}

func newSolver(bin []string) (*Solver, error) {
	s := &Solver{bin: bin}
	if err := s.start(); err != nil {
		return nil, err
	}
	return s, nil
}

func (s *Solver) start() error {
	s.cmd = exec.Command(s.bin[0], s.bin[1:]...)
	in, err := s.cmd.StdinPipe()
	if err != nil {
		return err
	}
	out, err := s.cmd.StdoutPipe()
	if err != nil {
		return err
	}
	s.cmd.Stderr = nil
	if err := s.cmd.Start(); err != nil {
		return err
	}
	s.in = in
	s.out = bufio.NewReaderSize(out, 1<<16)
	s.emitted = map[int]bool{}
	s.decl = map[string]bool{}
	s.ie = newIenc()
	s.send("(set-option :print-success false)")
	return nil
}

func (s *Solver) Close() {
	if s.cmd != nil {
		s.in.Close()
		s.cmd.Process.Kill()
		s.cmd.Wait()
		s.cmd = nil
	}
}

func (s *Solver) send(line string) {
	if s.log != nil {
		fmt.Fprintln(s.log, line)
	}
	io.WriteString(s.in, line)
	io.WriteString(s.in, "\n")
}

// Reset starts a fresh context for a new path.
func (s *Solver) Reset() {
	s.asserted = nil
	s.ie = newIenc()
	s.send("(reset)")
	s.send("(set-option :print-success false)")
	s.emitted = map[int]bool{}
	s.decl = map[string]bool{}
}

func (s *Solver) emit(c *TermCtx, t *Term) {
	switch t.op {
	case OpConst:
		return
	case OpVar:
		if !s.decl[t.name] {
			s.decl[t.name] = true
			if s.IntMode {
				s.send(fmt.Sprintf("(declare-const %s %s)", t.name, isort(t.w)))
				if t.w > 0 {
					s.send(fmt.Sprintf("(assert (and (<= 0 %s) (< %s %s)))", t.name, t.name, pow2(t.w)))
				}
			} else {
				s.send(fmt.Sprintf("(declare-const %s %s)", t.name, sortOf(t.w)))
			}
		}
		return
	}
	if s.emitted[t.id] {
		return
	}
	s.emitted[t.id] = true
	for _, a := range t.args {
		s.emit(c, a)
	}
	if t.op == OpApp && !s.decl["fun:"+t.name] {
		s.decl["fun:"+t.name] = true
		sig := c.apps[t.name]
		var sb strings.Builder
		for _, w := range sig[:len(sig)-1] {
			sb.WriteString(sortOf(w) + " ")
		}
		s.send(fmt.Sprintf("(declare-fun %s (%s) %s)", t.name, sb.String(), sortOf(sig[len(sig)-1])))
	}
	if s.IntMode {
		b := ""
		if t.op != OpApp {
			if d, ok := s.ie.define(t); ok {
				b = d
			}
		}
		if b == "" {
			s.Errors = append(s.Errors, fmt.Sprintf("integer encoding cannot express op %d", t.op))
			b = "0"
			if t.w == 0 {
				b = "false"
			}
		}
		s.send(fmt.Sprintf("(define-fun t%d () %s %s)", t.id, isort(t.w), b))
		return
	}
	s.send(fmt.Sprintf("(define-fun t%d () %s %s)", t.id, sortOf(t.w), body(t)))
}

func (s *Solver) r(t *Term) string {
	if s.IntMode {
		return s.ie.ref(t)
	}
	return ref(t)
}

func (s *Solver) Assert(c *TermCtx, t *Term) {
	if s.Fresh {
		s.asserted = append(s.asserted, t)
		return
	}
	if s.IntMode {
		s.ie.learn(t)
		s.ie.learn(t)
	}
	s.emit(c, t)
	s.send("(assert " + s.r(t) + ")")
}

func (s *Solver) readLine() (string, error) {
	l, err := s.out.ReadString('\n')
	return strings.TrimSpace(l), err
}

// Check asks whether the asserted path condition together with extra (may be
// nil) is satisfiable. With keep=true the extra assertion's scope is left
// open (caller must PopScope) so that a model can be queried.
func (s *Solver) Check(c *TermCtx, extra *Term, keep bool) SatResult {
	t0 := time.Now()
	s.Queries++
	if s.Fresh {
		s.send("(reset)")
		s.send("(set-option :print-success false)")
		s.emitted = map[int]bool{}
		s.decl = map[string]bool{}
		if s.IntMode {
			s.ie = newIenc()
			for pass := 0; pass < 2; pass++ {
				for _, a := range s.asserted {
					s.ie.learn(a)
				}
				if extra != nil {
					s.ie.learn(extra)
				}
			}
		}
		for _, a := range s.asserted {
			s.emit(c, a)
			s.send("(assert " + s.r(a) + ")")
		}
		if extra != nil {
			s.emit(c, extra)
			s.send("(assert " + s.r(extra) + ")")
		}
	} else if extra != nil {
		s.emit(c, extra)
		s.send("(push 1)")
		s.send("(assert " + s.r(extra) + ")")
	}
	s.send("(check-sat)")
	res := Unknown
	for {
		l, err := s.readLine()
		if err != nil {
			s.Errors = append(s.Errors, "solver died: "+err.Error())
			s.Close()
			s.start()
			res = Unknown
			keep = false
			extra = nil
			break
		}
		if l == "" {
			continue
		}
		if l == "sat" {
			res = Sat
			break
		}
		if l == "unsat" {
			res = Unsat
			break
		}
		if l == "unknown" || l == "timeout" {
			res = Unknown
			break
		}
		if strings.HasPrefix(l, "(error") {
			s.Errors = append(s.Errors, l)
			// keep reading until verdict; an error makes the verdict untrusted
			continue
		}
	}
	if len(s.Errors) > 0 {
		res = Unknown
	}
	if extra != nil && !keep && !s.Fresh {
		s.send("(pop 1)")
	}
	s.Time += time.Since(t0)
	return res
}

func (s *Solver) PopScope() {
	if !s.Fresh {
		s.send("(pop 1)")
	}
}

// Values queries the current model for the given terms.
func (s *Solver) Values(c *TermCtx, ts []*Term) map[int]uint64 {
	res := map[int]uint64{}
	var q []*Term
	for _, t := range ts {
		if t.op == OpConst {
			res[t.id] = t.c
			continue
		}
		if t.op == OpVar && !s.decl[t.name] {
			res[t.id] = 0 // never constrained on this path
			continue
		}
		if t.op != OpVar && !s.emitted[t.id] {
			continue
		}
		q = append(q, t)
	}
	// NB: cannot emit new definitions after check-sat without invalidating the
	// model in some solvers, so only already-emitted terms / vars are asked.
	for i := 0; i < len(q); i += 50 {
		j := i + 50
		if j > len(q) {
			j = len(q)
		}
		var sb strings.Builder
		sb.WriteString("(get-value (")
		for _, t := range q[i:j] {
			sb.WriteString(s.r(t) + " ")
		}
		sb.WriteString("))")
		s.send(sb.String())
		txt := s.readSexp()
		vals := parseValues(txt)
		if len(vals) != j-i {
			s.Errors = append(s.Errors, "get-value parse: "+txt)
			continue
		}
		for k, t := range q[i:j] {
			res[t.id] = vals[k]
		}
	}
	return res
}

func (s *Solver) readSexp() string {
	var sb strings.Builder
	depth := 0
	started := false
	for {
		l, err := s.out.ReadString('\n')
		if err != nil {
			return sb.String()
		}
		sb.WriteString(l)
		for _, ch := range l {
			if ch == '(' {
				depth++
				started = true
			} else if ch == ')' {
				depth--
			}
		}
		if started && depth <= 0 {
			return sb.String()
		}
	}
}

// parseValues extracts the value literals of a get-value answer in order.
func parseValues(txt string) []uint64 {
	var res []uint64
	toks := tokenize(txt)
	// structure: ( ( name val ) ( name val ) ... ) where name may itself be an s-expr
	i := 0
	if i < len(toks) && toks[i] == "(" {
		i++
	}
	for i < len(toks) && toks[i] == "(" {
		i++
		// skip name s-expr
		i = skipSexp(toks, i)
		// value
		start := i
		i = skipSexp(toks, i)
		res = append(res, parseLit(toks[start:i]))
		if i < len(toks) && toks[i] == ")" {
			i++
		}
	}
	return res
}

func tokenize(s string) []string {
	var toks []string
	cur := ""
	for _, ch := range s {
		switch {
		case ch == '(' || ch == ')':
			if cur != "" {
				toks = append(toks, cur)
				cur = ""
			}
			toks = append(toks, string(ch))
		case ch == ' ' || ch == '\n' || ch == '\t' || ch == '\r':
			if cur != "" {
				toks = append(toks, cur)
				cur = ""
			}
		default:
			cur += string(ch)
		}
	}
	if cur != "" {
		toks = append(toks, cur)
	}
	return toks
}

func skipSexp(toks []string, i int) int {
	if i >= len(toks) {
		return i
	}
	if toks[i] != "(" {
		return i + 1
	}
	d := 0
	for i < len(toks) {
		if toks[i] == "(" {
			d++
		} else if toks[i] == ")" {
			d--
			if d == 0 {
				return i + 1
			}
		}
		i++
	}
	return i
}

func parseLit(toks []string) uint64 {
	if len(toks) == 0 {
		return 0
	}
	t := toks[0]
	switch {
	case t == "true":
		return 1
	case t == "false":
		return 0
	case strings.HasPrefix(t, "#x"):
		v, _ := strconv.ParseUint(t[2:], 16, 64)
		return v
	case strings.HasPrefix(t, "#b"):
		v, _ := strconv.ParseUint(t[2:], 2, 64)
		return v
	case t == "(" && len(toks) >= 4 && toks[1] == "_" && strings.HasPrefix(toks[2], "bv"):
		v, _ := strconv.ParseUint(toks[2][2:], 10, 64)
		return v
	case t == "(" && len(toks) >= 3 && toks[1] == "-":
		v, _ := strconv.ParseUint(toks[2], 10, 64)
		return -v
	}
	if v, err := strconv.ParseUint(t, 10, 64); err == nil {
		return v
	}
	return 0
}

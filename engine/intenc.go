package main

import (
	"fmt"
	"math/big"
)

// Integer encoding of the bit-vector term language: every bit-vector term of
// width w becomes an Int in [0, 2^w) and every operation keeps the mod-2^w
// (wrap-around) semantics explicitly. Used for arithmetic kernels where
// bit-blasting of division/remainder by non-power-of-two constants stalls.
//
// To keep the Int formulas small, an interval [lo,hi] is tracked for every
// encoded term; a "mod 2^w" or a signed re-interpretation is dropped when the
// interval shows it is the identity. Variable intervals are refined from
// simple bounds (x <= c, c <= x, x == c) found in the *asserted* path
// condition, which is sound because those atoms are asserted in the same
// query.

type ival struct{ lo, hi *big.Int }

type ienc struct {
	expr map[int]string
	iv   map[int]ival
	vars map[string]ival
}

func bi(v int64) *big.Int { return big.NewInt(v) }
func p2(w int) *big.Int   { return new(big.Int).Lsh(big.NewInt(1), uint(w)) }
func pow2(w int) string   { return p2(w).String() }

func isort(w int) string {
	if w == 0 {
		return "Bool"
	}
	return "Int"
}

func newIenc() *ienc {
	return &ienc{expr: map[int]string{}, iv: map[int]ival{}, vars: map[string]ival{}}
}

func (e *ienc) full(w int) ival {
	return ival{bi(0), new(big.Int).Sub(p2(w), bi(1))}
}

func (e *ienc) ivOf(t *Term) ival {
	switch t.op {
	case OpConst:
		v := new(big.Int).SetUint64(t.c)
		return ival{v, v}
	case OpVar:
		if iv, ok := e.vars[t.name]; ok {
			return iv
		}
		return e.full(t.w)
	}
	if iv, ok := e.iv[t.id]; ok {
		return iv
	}
	return e.full(t.w)
}

func (e *ienc) ref(t *Term) string {
	switch t.op {
	case OpConst:
		if t.w == 0 {
			if t.c == 1 {
				return "true"
			}
			return "false"
		}
		return fmt.Sprintf("%d", t.c)
	case OpVar:
		return t.name
	}
	return fmt.Sprintf("t%d", t.id)
}

func lit(v *big.Int) string {
	if v.Sign() < 0 {
		return "(- " + new(big.Int).Neg(v).String() + ")"
	}
	return v.String()
}

// wrap returns expr reduced mod 2^w and its interval, dropping the mod when
// the value interval [lo,hi] already lies inside [0,2^w).
func wrap(expr string, lo, hi *big.Int, w int) (string, ival) {
	m := p2(w)
	if lo.Sign() >= 0 && hi.Cmp(m) < 0 {
		return expr, ival{lo, hi}
	}
	return fmt.Sprintf("(mod %s %s)", expr, m.String()), ival{bi(0), new(big.Int).Sub(m, bi(1))}
}

// signed returns the signed interpretation (as an Int expression and interval).
func (e *ienc) signed(t *Term) (string, ival) {
	w := t.w
	if t.op == OpConst {
		v := big.NewInt(sext(t.c, w))
		return lit(v), ival{v, v}
	}
	iv := e.ivOf(t)
	half := p2(w - 1)
	x := e.ref(t)
	if iv.hi.Cmp(half) < 0 {
		return x, iv
	}
	if iv.lo.Cmp(half) >= 0 {
		return fmt.Sprintf("(- %s %s)", x, pow2(w)), ival{new(big.Int).Sub(iv.lo, p2(w)), new(big.Int).Sub(iv.hi, p2(w))}
	}
	return fmt.Sprintf("(ite (< %s %s) %s (- %s %s))", x, half.String(), x, x, pow2(w)),
		ival{new(big.Int).Neg(half), new(big.Int).Sub(half, bi(1))}
}

func minB(a, b *big.Int) *big.Int {
	if a.Cmp(b) < 0 {
		return a
	}
	return b
}
func maxB(a, b *big.Int) *big.Int {
	if a.Cmp(b) > 0 {
		return a
	}
	return b
}

// define computes the Int definition of a non-leaf term; ok=false when the
// operation cannot be expressed.
func (e *ienc) define(t *Term) (string, bool) {
	a := func(i int) string { return e.ref(t.args[i]) }
	w := t.w
	set := func(expr string, iv ival) (string, bool) {
		e.iv[t.id] = iv
		return expr, true
	}
	switch t.op {
	case OpAdd:
		x, y := e.ivOf(t.args[0]), e.ivOf(t.args[1])
		ex, iv := wrap(fmt.Sprintf("(+ %s %s)", a(0), a(1)), new(big.Int).Add(x.lo, y.lo), new(big.Int).Add(x.hi, y.hi), w)
		return set(ex, iv)
	case OpSub:
		x, y := e.ivOf(t.args[0]), e.ivOf(t.args[1])
		ex, iv := wrap(fmt.Sprintf("(- %s %s)", a(0), a(1)), new(big.Int).Sub(x.lo, y.hi), new(big.Int).Sub(x.hi, y.lo), w)
		return set(ex, iv)
	case OpMul:
		x, y := e.ivOf(t.args[0]), e.ivOf(t.args[1])
		ex, iv := wrap(fmt.Sprintf("(* %s %s)", a(0), a(1)), new(big.Int).Mul(x.lo, y.lo), new(big.Int).Mul(x.hi, y.hi), w)
		return set(ex, iv)
	case OpUDiv:
		x, y := e.ivOf(t.args[0]), e.ivOf(t.args[1])
		if y.lo.Sign() > 0 {
			return set(fmt.Sprintf("(div %s %s)", a(0), a(1)), ival{new(big.Int).Div(x.lo, y.hi), new(big.Int).Div(x.hi, y.lo)})
		}
		return set(fmt.Sprintf("(ite (= %s 0) %s (div %s %s))", a(1), new(big.Int).Sub(p2(w), bi(1)).String(), a(0), a(1)), e.full(w))
	case OpURem:
		x, y := e.ivOf(t.args[0]), e.ivOf(t.args[1])
		if y.lo.Sign() > 0 {
			return set(fmt.Sprintf("(mod %s %s)", a(0), a(1)), ival{bi(0), minB(x.hi, new(big.Int).Sub(y.hi, bi(1)))})
		}
		return set(fmt.Sprintf("(ite (= %s 0) %s (mod %s %s))", a(1), a(0), a(0), a(1)), ival{bi(0), x.hi})
	case OpSDiv, OpSRem:
		sa, ia := e.signed(t.args[0])
		sb, ib := e.signed(t.args[1])
		if t.op == OpSRem {
			if ib.lo.Sign() > 0 { // positive divisor
				mx := new(big.Int).Sub(ib.hi, bi(1))
				if ia.lo.Sign() >= 0 {
					return set(fmt.Sprintf("(mod %s %s)", sa, sb), ival{bi(0), minB(ia.hi, mx)})
				}
				r := fmt.Sprintf("(let ((sa %s) (sb %s)) (ite (>= sa 0) (mod sa sb) (- (mod (- sa) sb))))", sa, sb)
				ex, iv := wrap(r, new(big.Int).Neg(mx), mx, w)
				return set(ex, iv)
			}
			r := fmt.Sprintf("(let ((sa %s) (sb %s)) (ite (= sb 0) sa (ite (>= sa 0) (mod sa (abs sb)) (- (mod (- sa) (abs sb))))))", sa, sb)
			return set(fmt.Sprintf("(mod %s %s)", r, pow2(w)), e.full(w))
		}
		if ib.lo.Sign() > 0 && ia.lo.Sign() >= 0 {
			return set(fmt.Sprintf("(div %s %s)", sa, sb), ival{new(big.Int).Div(ia.lo, ib.hi), new(big.Int).Div(ia.hi, ib.lo)})
		}
		q := fmt.Sprintf("(let ((sa %s) (sb %s)) (ite (= sb 0) (ite (>= sa 0) (- 1) 1) (ite (>= sa 0) (ite (> sb 0) (div sa sb) (- (div sa (- sb)))) (ite (> sb 0) (- (div (- sa) sb)) (div (- sa) (- sb))))))", sa, sb)
		return set(fmt.Sprintf("(mod %s %s)", q, pow2(w)), e.full(w))
	case OpAnd:
		for i := 0; i < 2; i++ {
			c := t.args[i]
			if c.op == OpConst && c.c&(c.c+1) == 0 { // 2^k-1
				k := 0
				for v := c.c; v != 0; v >>= 1 {
					k++
				}
				x := e.ivOf(t.args[1-i])
				ex, iv := wrap(a(1-i), x.lo, x.hi, k)
				return set(ex, iv)
			}
		}
		return "", false
	case OpOr, OpXor:
		return "", false
	case OpShl, OpLShr, OpAShr:
		if t.args[1].op != OpConst {
			return "", false
		}
		k := int(t.args[1].c)
		if k >= w {
			k = w
		}
		x := e.ivOf(t.args[0])
		switch t.op {
		case OpShl:
			ex, iv := wrap(fmt.Sprintf("(* %s %s)", a(0), pow2(k)), new(big.Int).Lsh(x.lo, uint(k)), new(big.Int).Lsh(x.hi, uint(k)), w)
			return set(ex, iv)
		case OpLShr:
			return set(fmt.Sprintf("(div %s %s)", a(0), pow2(k)), ival{new(big.Int).Rsh(x.lo, uint(k)), new(big.Int).Rsh(x.hi, uint(k))})
		default:
			sa, ia := e.signed(t.args[0])
			ex, iv := wrap(fmt.Sprintf("(div %s %s)", sa, pow2(k)), new(big.Int).Rsh(ia.lo, uint(k)), new(big.Int).Rsh(ia.hi, uint(k)), w)
			return set(ex, iv)
		}
	case OpNot:
		if w == 0 {
			return "(not " + a(0) + ")", true
		}
		x := e.ivOf(t.args[0])
		m1 := new(big.Int).Sub(p2(w), bi(1))
		return set(fmt.Sprintf("(- %s %s)", m1.String(), a(0)), ival{new(big.Int).Sub(m1, x.hi), new(big.Int).Sub(m1, x.lo)})
	case OpNeg:
		x := e.ivOf(t.args[0])
		ex, iv := wrap(fmt.Sprintf("(- %s)", a(0)), new(big.Int).Neg(x.hi), new(big.Int).Neg(x.lo), w)
		return set(ex, iv)
	case OpEq:
		return fmt.Sprintf("(= %s %s)", a(0), a(1)), true
	case OpULt:
		return fmt.Sprintf("(< %s %s)", a(0), a(1)), true
	case OpULe:
		return fmt.Sprintf("(<= %s %s)", a(0), a(1)), true
	case OpSLt, OpSLe:
		sa, _ := e.signed(t.args[0])
		sb, _ := e.signed(t.args[1])
		if t.op == OpSLt {
			return fmt.Sprintf("(< %s %s)", sa, sb), true
		}
		return fmt.Sprintf("(<= %s %s)", sa, sb), true
	case OpBAnd:
		return fmt.Sprintf("(and %s %s)", a(0), a(1)), true
	case OpBOr:
		return fmt.Sprintf("(or %s %s)", a(0), a(1)), true
	case OpIte:
		if w > 0 {
			x, y := e.ivOf(t.args[1]), e.ivOf(t.args[2])
			e.iv[t.id] = ival{minB(x.lo, y.lo), maxB(x.hi, y.hi)}
		}
		return fmt.Sprintf("(ite %s %s %s)", a(0), a(1), a(2)), true
	case OpZExt:
		return set(a(0), e.ivOf(t.args[0]))
	case OpSExt:
		sa, ia := e.signed(t.args[0])
		ex, iv := wrap(sa, ia.lo, ia.hi, w)
		return set(ex, iv)
	case OpExtract:
		hi, lo := int(t.c>>8), int(t.c&0xff)
		x := e.ivOf(t.args[0])
		if lo == 0 {
			ex, iv := wrap(a(0), x.lo, x.hi, hi+1)
			return set(ex, iv)
		}
		return set(fmt.Sprintf("(mod (div %s %s) %s)", a(0), pow2(lo), pow2(hi-lo+1)), e.full(hi-lo+1))
	}
	return "", false
}

// learn refines variable intervals from an asserted Bool term.
func (e *ienc) learn(t *Term) {
	switch t.op {
	case OpBAnd:
		e.learn(t.args[0])
		e.learn(t.args[1])
	case OpEq:
		x, y := t.args[0], t.args[1]
		if y.op == OpVar && x.op == OpConst {
			x, y = y, x
		}
		if x.op == OpVar && y.op == OpConst && x.w > 0 {
			v := new(big.Int).SetUint64(y.c)
			e.vars[x.name] = ival{v, v}
		}
	case OpULe, OpULt, OpSLe, OpSLt:
		x, y := t.args[0], t.args[1]
		strict := t.op == OpULt || t.op == OpSLt
		signedCmp := t.op == OpSLe || t.op == OpSLt
		one := bi(0)
		if strict {
			one = bi(1)
		}
		if x.op == OpVar && y.op == OpConst { // x <= c
			iv := e.ivOf(x)
			c := new(big.Int).SetUint64(y.c)
			if signedCmp {
				sc := big.NewInt(sext(y.c, y.w))
				half := p2(x.w - 1)
				if sc.Sign() < 0 || iv.hi.Cmp(half) >= 0 {
					return // would need a non-interval set
				}
				c = sc
			}
			e.vars[x.name] = ival{iv.lo, minB(iv.hi, new(big.Int).Sub(c, one))}
		} else if x.op == OpConst && y.op == OpVar { // c <= y
			iv := e.ivOf(y)
			c := new(big.Int).SetUint64(x.c)
			if signedCmp {
				sc := big.NewInt(sext(x.c, x.w))
				if sc.Sign() < 0 {
					return
				}
				// c <= signed(y) with c >= 0 implies y in [c, 2^(w-1)-1]
				half1 := new(big.Int).Sub(p2(y.w-1), bi(1))
				e.vars[y.name] = ival{maxB(iv.lo, new(big.Int).Add(sc, one)), minB(iv.hi, half1)}
				return
			}
			e.vars[y.name] = ival{maxB(iv.lo, new(big.Int).Add(c, one)), iv.hi}
		}
	}
}

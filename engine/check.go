package main

import (
	"encoding/json"
	"fmt"
	"os"
	"os/exec"
	"path/filepath"
	"sort"
	"strconv"
	"strings"
	"time"

	"golang.org/x/tools/go/ssa"
)

// ---------------------------------------------------------------------------
// configuration (checks.json)

type EntryCfg struct {
	Name     string           `json:"name"`
	Quick    map[string]int64 `json:"quick"`
	Thorough map[string]int64 `json:"thorough"`
	Reach    []string         `json:"reach"`         // markers that must be reached (vacuity guard)
	ReachT   []string         `json:"reach_thorough"` // additional markers required in the thorough tier
	MaxPaths int              `json:"maxpaths"`
	MaxPathT int              `json:"maxpaths_thorough"`
	Timeout  string           `json:"timeout"`
	TimeoutT string           `json:"timeout_thorough"`
	Skip     string           `json:"skip_tier"` // "quick" or "thorough": entry not run in that tier
	Replay   string           `json:"replay"`    // "native" (default), "engine" (schedule-dependent)
	Samples  string           `json:"samples"`   // translator validation of passing paths: "strict" (single-threaded: observation logs must be identical), default lenient (multiset compare, differences are notes), "off"
	Bounds   string           `json:"bounds"`
	BoundsT  string           `json:"bounds_thorough"`
	// optional per-entry overrides of the property-level settings (entries in another package)
	Pkg      string            `json:"pkg"`
	Harness  string            `json:"harness"`
	Files    []string          `json:"files"`
	Redirect map[string]string `json:"redirect"`
	Generator string           `json:"generator"`
	Interpret []string         `json:"interpret"` // callee prefixes that are NOT to be treated as observability no-ops in this entry
}

type PropCfg struct {
	Pkg         string     `json:"pkg"`
	Harness     string     `json:"harness"`
	Files       []string   `json:"files"`
	Entries     []EntryCfg `json:"entries"`
	Level       string     `json:"level"`
	Assumptions []string   `json:"assumptions"`
	Outside     []string   `json:"outside"`
	ExtraNoop   []string   `json:"extra_noop"`
	Redirect    map[string]string `json:"redirect"` // callee (fn.String()) -> harness function serving the call
	Generator   string            `json:"generator"` // "c18"/"c12": a harness file generated from the current tree's types
	ClassActs   []string   `json:"class_actions"` // action kinds that distinguish finding classes (default: all)
	SolverMode  string     `json:"solver_mode"` // "fresh": non-incremental queries (arithmetic kernels)
}

type KnownFinding struct {
	Property  string `json:"property"`
	Signature string `json:"signature"`
	What      string `json:"what"`
	Status    string `json:"status"` // "open" or "fixed"
	Commit    string `json:"commit,omitempty"`
	// Histories: when present, the finding only covers violations whose exact signature (entry, assertion
	// label, collapsed sequence of environment-action kinds) is listed; any other history of the same class
	// is reported as a new violation.
	Histories []string `json:"histories,omitempty"`
	// HistoriesThorough: further histories of the same finding that only occur within the thorough tier's
	// larger bounds (the same action sequence can be harmless under the quick parameters); used by the
	// thorough tier only, so that they do not mask anything at the quick tier.
	HistoriesThorough []string `json:"histories_thorough,omitempty"`
}

func (k *KnownFinding) hist(tier string) []string {
	if tier == "thorough" {
		return append(append([]string{}, k.Histories...), k.HistoriesThorough...)
	}
	return k.Histories
}

type KnownFile struct {
	Findings []KnownFinding `json:"findings"`
}

func signatureOf(prop string, entry string, v *Violation) string {
	// property + entry + assertion label + sequence of environment action kinds
	// (values abstracted, consecutive duplicates collapsed)
	var acts []string
	for _, a := range v.Actions {
		if len(acts) == 0 || acts[len(acts)-1] != a {
			acts = append(acts, a)
		}
	}
	return fmt.Sprintf("%s|%s|%s|%s", prop, strings.TrimPrefix(entry, "verifHarness_"), v.Label, strings.Join(acts, ">"))
}

// classOf is the coarse class used to match known findings: label only plus
// the set of action kinds (so a different assertion or a different kind of
// schedule is a different finding).
func classOf(prop string, v *Violation, only []string) string {
	set := map[string]bool{}
	for _, a := range v.Actions {
		if only != nil {
			keep := false
			for _, o := range only {
				if o == a {
					keep = true
				}
			}
			if !keep {
				continue
			}
		}
		set[a] = true
	}
	return fmt.Sprintf("%s|%s|{%s}", prop, v.Label, strings.Join(sortedSet(set), ","))
}

type entryOutcome struct {
	Entry      string
	Res        *RunResult
	Wall       time.Duration
	Params     map[string]int64
	MissReach  []string
	Inconcl    []string
	Confirmed  []*confirmedViolation
	Unconfirmd []string
	EndFeas    int
	SamplesOK  int
	SampleNotes []string
	S2Checks   int
	S2Time     time.Duration
}

type confirmedViolation struct {
	V      *Violation
	Sig    string
	Class  string
	Replay string
	How    string
	Known  *KnownFinding
}

func checkMain(args []string) int {
	verif := os.Getenv("VERIF_DIR")
	if verif == "" {
		verif = "/verif"
	}
	repo := os.Getenv("VERIF_REPO")
	if repo == "" {
		repo = "/repo"
	}
	if len(args) < 1 {
		fmt.Fprintln(os.Stderr, "usage: gosx check <id> [--tier quick|thorough] [--replay file] [--entry name] [--workers n]")
		return 2
	}
	id := args[0]
	tier := os.Getenv("VERIF_TIER")
	if tier == "" {
		tier = "quick"
	}
	workers := 16
	onlyEntry := ""
	replayFile := ""
	keepGoing := false
	for i := 1; i < len(args); i++ {
		switch args[i] {
		case "--tier":
			i++
			tier = args[i]
		case "--workers":
			i++
			workers, _ = strconv.Atoi(args[i])
		case "--entry":
			i++
			onlyEntry = args[i]
		case "--replay":
			i++
			replayFile = args[i]
		case "--keep-going":
			keepGoing = true
		}
	}
	_ = keepGoing
	seed := 0
	if s := os.Getenv("VERIF_SEED"); s != "" {
		seed, _ = strconv.Atoi(s)
	}
	t0 := time.Now()
	var cfgAll map[string]PropCfg
	b, err := os.ReadFile(filepath.Join(verif, "checks.json"))
	if err != nil {
		fmt.Println("INCONCLUSIVE property=" + id + " reason=cannot read checks.json")
		return 2
	}
	if err := json.Unmarshal(b, &cfgAll); err != nil {
		fmt.Println("INCONCLUSIVE property=" + id + " reason=checks.json: " + err.Error())
		return 2
	}
	pc, ok := cfgAll[id]
	if !ok {
		fmt.Println("INCONCLUSIVE property=" + id + " reason=no such property in checks.json")
		return 2
	}
	var known KnownFile
	if kb, err := os.ReadFile(filepath.Join(verif, "known_findings.json")); err == nil {
		json.Unmarshal(kb, &known)
	}
	hdir := filepath.Join(verif, pc.Harness)
	_ = hdir
	if replayFile != "" {
		return replayMain(verif, repo, id, pc, hdir, replayFile)
	}

	type loaded struct {
		prog *ssa.Program
		pkg  *ssa.Package
		err  error
	}
	loadCache := map[string]*loaded{}
	loadFor := func(ec EntryCfg) (*loaded, PropCfg, string) {
		epc := pc
		if ec.Pkg != "" {
			epc.Pkg = ec.Pkg
		}
		if ec.Harness != "" {
			epc.Harness = ec.Harness
		}
		if ec.Files != nil {
			epc.Files = ec.Files
		}
		if ec.Redirect != nil {
			epc.Redirect = ec.Redirect
		}
		if ec.Generator != "" {
			epc.Generator = ec.Generator
		}
		ehdir := filepath.Join(verif, epc.Harness)
		key := epc.Pkg + "|" + epc.Harness + "|" + strings.Join(epc.Files, ",") + "|" + epc.Generator
		if l, ok := loadCache[key]; ok {
			return l, epc, ehdir
		}
		l := &loaded{}
		loadCache[key] = l
		tl := time.Now()
		overlay, err := buildOverlayFiles(repo, epc.Pkg, ehdir, epc.Files)
		if err != nil {
			l.err = err
			return l, epc, ehdir
		}
		if epc.Generator == "c18" {
			src, n, gerr := genC18(repo, 20000)
			if gerr != nil {
				l.err = gerr
				return l, epc, ehdir
			}
			fmt.Fprintf(os.Stderr, "[%s] generated %d obligations from the types of the current tree\n", id, n)
			overlay[filepath.Join(repo, epc.Pkg, "zz_verif_c18gen.go")] = src
		}
		if epc.Generator == "c12" {
			src, n, gerr := genC12(repo)
			if gerr != nil {
				l.err = gerr
				return l, epc, ehdir
			}
			fmt.Fprintf(os.Stderr, "[%s] generated the namespace-bearing table for %d event types from the types of the current tree\n", id, n)
			overlay[filepath.Join(repo, epc.Pkg, "zz_verif_c12gen.go")] = src
		}
		l.prog, l.pkg, l.err = load(repo, epc.Pkg, overlay)
		if l.err == nil {
			fmt.Fprintf(os.Stderr, "[%s] loaded %s in %v\n", id, epc.Pkg, time.Since(tl).Round(time.Millisecond))
		}
		return l, epc, ehdir
	}
	var dumpSigs map[string][]string
	if os.Getenv("VERIF_DUMP_SIGS") != "" {
		dumpSigs = map[string][]string{}
	}
	var outcomes []*entryOutcome
	exit := 0
	nViol := 0
	var inconclusive []string
	for ei, ec := range pc.Entries {
		if onlyEntry != "" && ec.Name != onlyEntry {
			continue
		}
		if ec.Skip == tier {
			continue
		}
		ld, epc, ehdir := loadFor(ec)
		if ld.err != nil {
			fmt.Fprintln(os.Stderr, ld.err)
			inconclusive = append(inconclusive, ec.Name+": harness does not load against the current tree: "+firstLine(ld.err.Error()))
			continue
		}
		prog, pkg := ld.prog, ld.pkg
		fn := pkg.Func(ec.Name)
		if fn == nil {
			inconclusive = append(inconclusive, "entry not found: "+ec.Name)
			continue
		}
		e := newEngine(prog, pkg, []string{"z3", "-in", "-t:120000"})
		e.stopOnViol = 1000000
		hasOpen := false
		for i := range known.Findings {
			if known.Findings[i].Property == id && known.Findings[i].Status == "open" {
				hasOpen = true
			}
		}
		if !hasOpen {
			e.stopOnViol = 5000 // nothing to tell apart from listed findings: no need to enumerate every failing path
		}
		if tier == "thorough" {
			e.solver2Bin = []string{"z3-new", "-in", "-t:120000"}
		}
		e.extraNoop = epc.ExtraNoop
		e.interpret = ec.Interpret
		e.redirect = epc.Redirect
		e.solverFresh = pc.SolverMode == "fresh" || pc.SolverMode == "int-fresh"
		e.solverInt = pc.SolverMode == "int" || pc.SolverMode == "int-fresh"
		params := ec.Quick
		maxPaths := ec.MaxPaths
		to := ec.Timeout
		reach := append([]string{}, ec.Reach...)
		if tier == "thorough" {
			params = map[string]int64{}
			for k, v := range ec.Quick {
				params[k] = v
			}
			for k, v := range ec.Thorough {
				params[k] = v
			}
			if ec.MaxPathT > 0 {
				maxPaths = ec.MaxPathT
			}
			if ec.TimeoutT != "" {
				to = ec.TimeoutT
			}
			reach = append(reach, ec.ReachT...)
		}
		if maxPaths == 0 {
			maxPaths = 400000
		}
		e.maxPaths = maxPaths
		if to == "" {
			to = "10m"
		}
		d, _ := time.ParseDuration(to)
		// wall budgets only guard against hangs; the registered bounds finish well inside them on an idle
		// 16-core machine. A floor keeps a loaded machine from turning a pass into INCONCLUSIVE.
		if floor := 20 * time.Minute; tier != "thorough" && d < floor {
			d = floor
		}
		if floor := 90 * time.Minute; tier == "thorough" && d < floor {
			d = floor
		}
		e.deadline = time.Now().Add(d)
		for k, v := range params {
			e.params[k] = v
		}
		if tier == "thorough" {
			e.params["tier"] = 1
		}
		e.params["seed"] = int64(seed)
		t1 := time.Now()
		res := e.explore(fn, workers)
		oc := &entryOutcome{Entry: ec.Name, Res: res, Wall: time.Since(t1), Params: params, S2Checks: e.Solver2Checks, S2Time: e.Solver2Time}
		outcomes = append(outcomes, oc)
		fmt.Fprintf(os.Stderr, "[%s] %s: paths=%d ends=%v queries=%d solver=%v wall=%v\n", id, ec.Name, res.Paths, res.Ends,
			res.Queries, res.SolverTime.Round(time.Millisecond), oc.Wall.Round(time.Millisecond))
		// inconclusive conditions
		for m, n := range res.Unsupported {
			oc.Inconcl = append(oc.Inconcl, fmt.Sprintf("unsupported x%d: %s", n, m))
		}
		for m, n := range res.Bounds {
			oc.Inconcl = append(oc.Inconcl, fmt.Sprintf("bound exceeded x%d: %s", n, m))
		}
		if res.Truncated != "" {
			oc.Inconcl = append(oc.Inconcl, res.Truncated)
		}
		if res.Unknowns > 0 {
			oc.Inconcl = append(oc.Inconcl, fmt.Sprintf("%d solver unknowns", res.Unknowns))
		}
		for _, se := range res.SolverErrs {
			oc.Inconcl = append(oc.Inconcl, "solver error: "+se)
		}
		for _, m := range reach {
			if !res.Reached[m] {
				oc.MissReach = append(oc.MissReach, m)
			}
		}
		// violations: dedupe by signature, replay, match against known findings
		seen := map[string]bool{}
		perClass := map[string]int{}
		knownHist := map[string]*KnownFinding{}
		for i := range known.Findings {
			k := &known.Findings[i]
			if k.Property == id && k.Status == "open" {
				for _, h := range k.hist(tier) {
					knownHist[h] = k
				}
			}
		}
		for _, v := range res.Violations {
			sig := signatureOf(id, ec.Name, v)
			if seen[sig] {
				continue
			}
			seen[sig] = true
			cv := &confirmedViolation{V: v, Sig: sig, Class: classOf(id, v, pc.ClassActs)}
			if dumpSigs != nil {
				dumpSigs[cv.Class] = append(dumpSigs[cv.Class], sig)
			}
			if k, ok := knownHist[sig]; ok {
				// an exactly listed history of an open finding: replay only the first two per class
				perClass[cv.Class]++
				if perClass[cv.Class] > 2 {
					cv.Known = k
					cv.How = "listed history of a known finding (representatives of this class were replayed)"
					oc.Confirmed = append(oc.Confirmed, cv)
					continue
				}
			} else if len(knownHist) == 0 {
				perClass[cv.Class]++
				if perClass[cv.Class] > 2 {
					continue // two replayed representatives per class are enough
				}
				if len(oc.Confirmed) >= 8 {
					continue // enough replayed counterexamples for this entry (no open finding to tell apart)
				}
			}
			rp, err := writeReplay(verif, id, fmt.Sprintf("%s-e%d", ec.Name, ei), v, len(oc.Confirmed)+len(oc.Unconfirmd), params)
			if err != nil {
				oc.Unconfirmd = append(oc.Unconfirmd, sig+": cannot write replay: "+err.Error())
				continue
			}
			cv.Replay = rp
			mode := ec.Replay
			if mode == "" {
				mode = "native"
			}
			okReplay, how := false, ""
			if mode == "native" {
				okReplay, how = nativeReplay(verif, repo, epc, ehdir, ec.Name, rp)
				// real goroutines are not forced into the engine's schedule: on a loaded machine a replay can
				// take another interleaving and pass; try again before giving up
				for try := 0; !okReplay && try < 2; try++ {
					okReplay, how = nativeReplay(verif, repo, epc, ehdir, ec.Name, rp)
				}
				if !okReplay && knownHist[sig] != nil {
					// a listed history of a known finding (natively confirmed when it was recorded)
					nh := how
					okReplay, how = engineReplay(e, fn, v)
					how += " [native attempts: " + nh + "]"
				}
				if !okReplay && hasPreemption(v) {
					// the native scheduler cannot be forced into every cooperative schedule
					nh := how
					okReplay, how = engineReplay(e, fn, v)
					how += " [native attempt: " + nh + "]"
				}
			} else {
				okReplay, how = engineReplay(e, fn, v)
			}
			cv.How = how
			if !okReplay {
				oc.Unconfirmd = append(oc.Unconfirmd, sig+": counterexample did not reproduce ("+how+")")
				continue
			}
			for i := range known.Findings {
				k := &known.Findings[i]
				if k.Property == id && k.Status == "open" && (k.Signature == cv.Class || k.Signature == cv.Sig) {
					if k.Histories != nil {
						found := false
						for _, h := range k.hist(tier) {
							if h == cv.Sig {
								found = true
							}
						}
						if !found {
							continue
						}
					}
					cv.Known = k
				}
			}
			oc.Confirmed = append(oc.Confirmed, cv)
		}
		// translator validation: replay sampled *passing* paths natively and compare observations
		if (ec.Replay == "" || ec.Replay == "native") && len(epc.Redirect) == 0 && os.Getenv("VERIF_NO_SAMPLES") == "" && ec.Samples != "off" {
			for si, smp := range res.Samples {
				if smp.Values == nil && smp.Nondets > 0 {
					continue
				}
				sv := &Violation{Label: "sample", Msg: "passing path witness", Nondets: smp.Values, Decisions: smp.Decisions, Actions: smp.Actions, Observes: smp.Observes}
				rp, err := writeReplay(verif, id, fmt.Sprintf("%s-e%d-sample", ec.Name, ei), sv, si, params)
				if err != nil {
					continue
				}
				out, errs := nativeRun(verif, repo, epc, ehdir, ec.Name, rp)
				os.Remove(rp)
				switch {
				case errs != "":
					oc.SampleNotes = append(oc.SampleNotes, "sample could not run natively: "+errs)
				case strings.Contains(out, "VERIF-REPLAY-OK"):
					nat := nativeObserves(out)
					if ec.Samples == "strict" {
						if sameObserves(nat, smp.Observes) {
							oc.SamplesOK++
						} else {
							oc.Inconcl = append(oc.Inconcl, fmt.Sprintf("translator validation: native observations differ from the engine's on a passing path (engine %v, native %v)", smp.Observes, nat))
						}
					} else {
						// concurrent harness: goroutine and map order are not forced natively; compare as multisets
						a, b := append([]string{}, nat...), append([]string{}, smp.Observes...)
						sort.Strings(a)
						sort.Strings(b)
						if sameObserves(a, b) {
							oc.SamplesOK++
						} else {
							oc.SampleNotes = append(oc.SampleNotes, "passing path replayed natively without assertion failure; observation multiset differs (native scheduling not forced)")
						}
					}
				case strings.Contains(out, "VERIF-ASSERT-FAILED"):
					oc.Inconcl = append(oc.Inconcl, "translator validation: a path the engine proved fails natively: "+firstLine(out[strings.Index(out, "VERIF-ASSERT-FAILED"):]))
				default:
					oc.SampleNotes = append(oc.SampleNotes, "sample diverged natively (schedule- or order-dependent path)")
				}
			}
		}
		if len(oc.MissReach) > 0 && len(oc.Confirmed) == 0 {
			oc.Inconcl = append(oc.Inconcl, "vacuity: markers not reached: "+strings.Join(oc.MissReach, ","))
		}
		if res.Ends["done"] == 0 && len(res.Violations) == 0 {
			oc.Inconcl = append(oc.Inconcl, "vacuity: no path reached the end of the harness")
		}
		for _, u := range oc.Unconfirmd {
			oc.Inconcl = append(oc.Inconcl, "engine-defect? "+u)
		}
		// VERIF_FAILFAST=1 (seed regression only): once an entry has a confirmed violation that no known
		// finding lists, the verdict (exit 1) is settled; the remaining entries are not run
		if os.Getenv("VERIF_FAILFAST") != "" {
			settled := false
			for _, cv := range oc.Confirmed {
				if cv.Known == nil {
					settled = true
				}
			}
			if settled {
				break
			}
		}
	}
	// report
	printedKnown := map[string]bool{}
	for _, oc := range outcomes {
		for _, cv := range oc.Confirmed {
			if cv.Known != nil {
				if !printedKnown[cv.Known.Signature] {
					printedKnown[cv.Known.Signature] = true
					fmt.Printf("KNOWN-FINDING: property=%s %s\n", id, cv.Known.What)
				}
				continue
			}
			nViol++
			exit = 1
			fmt.Printf("VIOLATION property=%s replay=%s\n", id, cv.Replay)
			fmt.Printf("  signature=%s class=%s confirmed-by=%s\n", cv.Sig, cv.Class, cv.How)
		}
		for _, m := range oc.Inconcl {
			inconclusive = append(inconclusive, oc.Entry+": "+m)
		}
	}
	if dumpSigs != nil {
		b, _ := json.MarshalIndent(dumpSigs, "", " ")
		os.WriteFile(os.Getenv("VERIF_DUMP_SIGS"), b, 0o644)
	}
	writeEvidence(verif, id, tier, seed, pc, outcomes, time.Since(t0), nViol, inconclusive)
	if exit == 1 {
		return 1
	}
	if len(inconclusive) > 0 {
		sort.Strings(inconclusive)
		for i, m := range inconclusive {
			if i > 12 {
				fmt.Printf("  ... %d more\n", len(inconclusive)-i)
				break
			}
			fmt.Printf("INCONCLUSIVE property=%s reason=%s\n", id, firstLine(m))
		}
		return 2
	}
	tot := 0
	for _, oc := range outcomes {
		tot += oc.Res.Paths
	}
	fmt.Printf("OK property=%s tier=%s entries=%d paths=%d wall=%v\n", id, tier, len(outcomes), tot, time.Since(t0).Round(time.Millisecond))
	return 0
}

func hasPreemption(v *Violation) bool {
	for _, d := range v.Decisions {
		if (strings.HasPrefix(d.Kind, "preempt:") || d.Kind == "sched") && d.Alt != 0 {
			return true
		}
	}
	return false
}

func nativeObserves(out string) []string {
	var res []string
	for _, l := range strings.Split(out, "\n") {
		if i := strings.Index(l, "VERIF-OBSERVE "); i >= 0 {
			res = append(res, strings.TrimSpace(l[i+len("VERIF-OBSERVE "):]))
		}
	}
	return res
}

func sameObserves(a, b []string) bool {
	if len(a) != len(b) {
		return false
	}
	for i := range a {
		if a[i] != b[i] {
			return false
		}
	}
	return true
}

func firstLine(s string) string {
	if i := strings.IndexByte(s, '\n'); i >= 0 {
		s = s[:i]
	}
	if len(s) > 400 {
		s = s[:400]
	}
	return s
}

func buildOverlayFiles(repo, pkgPat, hdir string, files []string) (map[string][]byte, error) {
	ov := map[string][]byte{}
	pkgDir := filepath.Join(repo, pkgPat)
	var paths []string
	for _, f := range files {
		paths = append(paths, filepath.Join(hdir, f))
	}
	for _, f := range paths {
		b, err := os.ReadFile(f)
		if err != nil {
			return nil, err
		}
		ov[filepath.Join(pkgDir, "zz_verif_"+filepath.Base(f))] = b
	}
	rt, err := os.ReadFile(filepath.Join(filepath.Dir(hdir), "rt", "rt_engine.go.txt"))
	if err != nil {
		return nil, err
	}
	pkgName, err := packageNameOf(paths)
	if err != nil {
		return nil, err
	}
	ov[filepath.Join(pkgDir, "zz_verif_rt.go")] = []byte(strings.Replace(string(rt), "package PKG", "package "+pkgName, 1))
	return ov, nil
}

// ---------------------------------------------------------------------------
// replay files

type ReplayFile struct {
	Property  string           `json:"property"`
	Entry     string           `json:"entry"`
	Label     string           `json:"label"`
	Msg       string           `json:"msg"`
	Signature string           `json:"signature"`
	Params    map[string]int64 `json:"params"`
	Nondets   []NondetVal      `json:"nondets"`
	Decisions []Decision       `json:"decisions"`
	Actions   []string         `json:"actions"`
	Observes  []string         `json:"observes"`
	Threads   []string         `json:"threads,omitempty"`
}

func writeReplay(verif, id, entry string, v *Violation, n int, params map[string]int64) (string, error) {
	dir := filepath.Join(verif, "replays")
	if err := os.MkdirAll(dir, 0o755); err != nil {
		return "", err
	}
	rf := ReplayFile{Property: id, Entry: entry, Label: v.Label, Msg: v.Msg, Signature: signatureOf(id, entry, v),
		Params: params, Nondets: v.Nondets, Decisions: v.Decisions, Actions: v.Actions, Observes: v.Observes, Threads: v.Threads}
	b, _ := json.MarshalIndent(rf, "", " ")
	p := filepath.Join(dir, fmt.Sprintf("%s-%s-%d.json", id, strings.TrimPrefix(entry, "verifHarness_"), n))
	return p, os.WriteFile(p, b, 0o644)
}

// nativeReplay compiles the harness into the real package with the native
// runtime and runs the recorded counterexample as an ordinary Go test.
func nativeReplay(verif, repo string, pc PropCfg, hdir, entry, replayPath string) (bool, string) {
	s, errs := nativeRun(verif, repo, pc, hdir, entry, replayPath)
	if errs != "" {
		return false, errs
	}
	return classifyNative(s)
}

// nativeRun compiles the harness into the real package with the native runtime and runs the
// recorded inputs as an ordinary Go test; it returns the test output.
func nativeRun(verif, repo string, pc PropCfg, hdir, entry, replayPath string) (string, string) {
	tmp, err := os.MkdirTemp("", "gosx-replay-")
	if err != nil {
		return "", err.Error()
	}
	defer os.RemoveAll(tmp)
	pkgDir := filepath.Join(repo, pc.Pkg)
	var paths []string
	repl := map[string]string{}
	for _, f := range pc.Files {
		p := filepath.Join(hdir, f)
		paths = append(paths, p)
		repl[filepath.Join(pkgDir, "zz_verif_"+strings.TrimSuffix(f, ".go")+"_test.go")] = p
	}
	pkgName, err := packageNameOf(paths)
	if err != nil {
		return "", err.Error()
	}
	if pc.Generator == "c18" {
		src, _, gerr := genC18(repo, 20000)
		if gerr != nil {
			return "", gerr.Error()
		}
		gp := filepath.Join(tmp, "c18gen_test.go")
		os.WriteFile(gp, src, 0o644)
		repl[filepath.Join(pkgDir, "zz_verif_c18gen_test.go")] = gp
	}
	if pc.Generator == "c12" {
		src, _, gerr := genC12(repo)
		if gerr != nil {
			return "", gerr.Error()
		}
		gp := filepath.Join(tmp, "c12gen_test.go")
		os.WriteFile(gp, src, 0o644)
		repl[filepath.Join(pkgDir, "zz_verif_c12gen_test.go")] = gp
	}
	rt, err := os.ReadFile(filepath.Join(filepath.Dir(hdir), "rt", "rt_native.go.txt"))
	if err != nil {
		return "", err.Error()
	}
	rtPath := filepath.Join(tmp, "rt_native_test.go")
	os.WriteFile(rtPath, []byte(strings.Replace(string(rt), "package PKG", "package "+pkgName, 1)), 0o644)
	repl[filepath.Join(pkgDir, "zz_verif_rt_test.go")] = rtPath
	testSrc := fmt.Sprintf("package %s\n\nimport \"testing\"\n\nfunc TestVerifReplay(t *testing.T) { verifRunReplay(t, %s) }\n", pkgName, entry)
	tp := filepath.Join(tmp, "replay_test.go")
	os.WriteFile(tp, []byte(testSrc), 0o644)
	repl[filepath.Join(pkgDir, "zz_verif_replay_test.go")] = tp
	// schedule-dependent counterexamples: insert a forced yield at every recorded pre-emption point
	if rb, err := os.ReadFile(replayPath); err == nil {
		var rf ReplayFile
		if json.Unmarshal(rb, &rf) == nil {
			byFile := map[string][]int{}
			for _, d := range rf.Decisions {
				if strings.HasPrefix(d.Kind, "preempt:") && d.Alt != 0 && d.Pos != "" {
					i := strings.LastIndexByte(d.Pos, ':')
					ln, _ := strconv.Atoi(d.Pos[i+1:])
					byFile[d.Pos[:i]] = append(byFile[d.Pos[:i]], ln)
				}
			}
			n := 0
			for file, lines := range byFile {
				if !strings.HasPrefix(file, repo) || strings.Contains(file, "zz_verif_") {
					continue
				}
				src, err := os.ReadFile(file)
				if err != nil {
					continue
				}
				ls := strings.Split(string(src), "\n")
				sort.Sort(sort.Reverse(sort.IntSlice(lines)))
				last := -1
				for _, ln := range lines {
					if ln == last || ln < 1 || ln > len(ls) {
						continue
					}
					last = ln
					hook := fmt.Sprintf("verifPreemptHere(%q)", fmt.Sprintf("%s:%d", file, ln))
					// keep line numbers stable: put the hook on the same line
					ls[ln-1] = hook + "; " + ls[ln-1]
				}
				n++
				ip := filepath.Join(tmp, fmt.Sprintf("instr%d_%s", n, filepath.Base(file)))
				os.WriteFile(ip, []byte(strings.Join(ls, "\n")), 0o644)
				repl[file] = ip
			}
		}
	}
	ovb, _ := json.Marshal(map[string]interface{}{"Replace": repl})
	ovPath := filepath.Join(tmp, "overlay.json")
	os.WriteFile(ovPath, ovb, 0o644)
	cmd := exec.Command("go", "test", "-vet=off", "-count=1", "-timeout", "120s", "-overlay", ovPath, "-run", "^TestVerifReplay$", "-v", pc.Pkg)
	cmd.Dir = repo
	cmd.Env = append(os.Environ(), "VERIF_REPLAY="+replayPath, "GOFLAGS=-mod=mod", "GOPROXY=off", "GOTOOLCHAIN=local")
	out, _ := cmd.CombinedOutput()
	s := string(out)
	if os.Getenv("VERIF_DEBUG") != "" {
		fmt.Fprintln(os.Stderr, s)
	}
	return s, ""
}

func classifyNative(s string) (bool, string) {
	switch {
	case strings.Contains(s, "VERIF-ASSERT-FAILED"):
		l := ""
		for _, ln := range strings.Split(s, "\n") {
			if strings.Contains(ln, "VERIF-ASSERT-FAILED") {
				l = strings.TrimSpace(ln)
				break
			}
		}
		return true, "native go test: " + l
	case strings.Contains(s, "VERIF-PANIC"):
		return true, "native go test: harness panicked as predicted"
	case strings.Contains(s, "VERIF-DEADLOCK"):
		return true, "native go test: blocked as predicted"
	case strings.Contains(s, "VERIF-REPLAY-OK"):
		return false, "native run passed every assertion"
	case strings.Contains(s, "VERIF-REPLAY-DIVERGED"):
		return false, "native run diverged from the recorded inputs"
	}
	tail := s
	if len(tail) > 600 {
		tail = tail[len(tail)-600:]
	}
	return false, "native replay could not run: " + strings.ReplaceAll(tail, "\n", " | ")
}

// engineReplay re-executes the counterexample inside the engine with every
// decision (branch sides, scheduling choices, map orders) fixed to the recorded
// ones and checks that the same violation is reached and that the recorded
// input values satisfy the path condition.
func engineReplay(e *Engine, fn *ssa.Function, v *Violation) (bool, string) {
	sol, err := newSolver(e.solverBin)
	if err != nil {
		return false, "cannot start solver"
	}
	defer sol.Close()
	sol.IntMode = e.solverInt
	sol.Fresh = e.solverFresh
	w := &Worker{eng: e, sol: sol}
	prefix := make([]int, len(v.Decisions))
	for i, d := range v.Decisions {
		prefix[i] = d.Alt
	}
	ex, end := w.runPath(fn, prefix)
	if end.kind != "violation" || ex.violation == nil {
		return false, "engine re-execution ended with " + end.kind + " " + end.msg
	}
	if ex.violation.Label != v.Label {
		return false, "engine re-execution reached a different violation: " + ex.violation.Label
	}
	return true, "engine-confirmed only: counterexample re-executed in the engine with all decisions and values fixed (not linkable natively: entry uses redirect stubs, or the schedule could not be forced)"
}

func replayMain(verif, repo, id string, pc PropCfg, hdir, file string) int {
	b, err := os.ReadFile(file)
	if err != nil {
		fmt.Println("cannot read replay:", err)
		return 2
	}
	var rf ReplayFile
	json.Unmarshal(b, &rf)
	ok, how := nativeReplay(verif, repo, pc, hdir, rf.Entry, file)
	fmt.Printf("replay %s: reproduced=%v (%s)\n", file, ok, how)
	if ok {
		fmt.Printf("VIOLATION property=%s replay=%s\n", id, file)
		return 1
	}
	return 0
}

// ---------------------------------------------------------------------------
// evidence

func writeEvidence(verif, id, tier string, seed int, pc PropCfg, outs []*entryOutcome, wall time.Duration, nViol int, inconclusive []string) {
	level := pc.Level
	if level == "" {
		level = "model_checking"
	}
	cov := map[string]interface{}{}
	states, trans, paths, queries, asserts := 0, 0, 0, 0, 0
	var solverT time.Duration
	funcs := map[string]bool{}
	stubs := map[string]bool{}
	reached := map[string]bool{}
	var samples []interface{}
	var entries []interface{}
	validated := 0
	known := 0
	var sampleNotes []string
	for _, oc := range outs {
		r := oc.Res
		paths += r.Paths
		states += r.Paths + r.Decisions
		trans += r.Decisions
		queries += r.Queries
		asserts += r.Asserts
		solverT += r.SolverTime
		for f := range r.Funcs {
			if strings.Contains(f, "s2s-proxy") && !strings.Contains(f, "verif") {
				funcs[f] = true
			}
		}
		for s := range r.Stubs {
			stubs[s] = true
		}
		for s := range r.Reached {
			reached[s] = true
		}
		for _, s := range r.Samples {
			if len(samples) < 4 {
				samples = append(samples, map[string]interface{}{"entry": oc.Entry, "path": s})
			}
		}
		validated += oc.SamplesOK
		for _, n := range oc.SampleNotes {
			sampleNotes = append(sampleNotes, oc.Entry+": "+n)
		}
		for _, cv := range oc.Confirmed {
			validated++
			if cv.Known != nil {
				known++
			}
			if len(samples) < 8 {
				samples = append(samples, map[string]interface{}{"entry": oc.Entry, "counterexample": cv.Sig, "replay": cv.Replay, "confirmed": cv.How, "known_finding": cv.Known != nil})
			}
		}
		entries = append(entries, map[string]interface{}{
			"entry": oc.Entry, "params": oc.Params, "paths": r.Paths, "path_ends": r.Ends, "decisions": r.Decisions,
			"max_decision_depth": r.MaxDepth, "ssa_instructions_executed": r.Steps, "assertions_evaluated": r.Asserts,
			"solver_queries": r.Queries, "solver_time_s": r.SolverTime.Seconds(), "wall_s": oc.Wall.Seconds(),
			"engine_config": r.Cfg, "violations_found": len(r.Violations), "confirmed": len(oc.Confirmed), "unconfirmed": oc.Unconfirmd,
			"passing_paths_replayed_natively_with_equal_observations": oc.SamplesOK,
			"second_solver_rechecks_of_unsat_assertions": oc.S2Checks, "second_solver_time_s": oc.S2Time.Seconds(),
		})
	}
	if states == 0 {
		states = 1
	}
	if trans == 0 {
		trans = 1
	}
	if len(samples) == 0 {
		samples = append(samples, map[string]interface{}{"note": "no completed path sample (run did not complete)"})
	}
	cov["states"] = states
	cov["transitions"] = trans
	cov["traces_validated_against_impl"] = validated
	cov["samples"] = samples
	cov["paths_explored"] = paths
	cov["solver_queries"] = queries
	cov["solver_time_s"] = solverT.Seconds()
	cov["assertions_evaluated"] = asserts
	cov["functions_encoded"] = sortedSet(funcs)
	cov["intrinsics_and_stubs_hit"] = sortedSet(stubs)
	cov["reach_markers"] = sortedSet(reached)
	cov["entries"] = entries
	cov["solver"] = "z3 4.8.12 (/usr/bin/z3 -in), one process per worker, push/pop; thorough tier: every unsat of an assertion query re-asked of z3 5.1.0 (z3-new) from scratch"
	cov["known_findings_matched"] = known
	cov["translator_validation_notes"] = sampleNotes
	cov["inconclusive"] = inconclusive
	cov["outside_the_claim"] = pc.Outside
	cov["exhaustive"] = len(inconclusive) == 0
	cov["explanation"] = "bounded symbolic execution of the real functions (go/ssa of the current /repo tree) with the harness overlaid in-package; every path's assertions are discharged by the SMT solver for all values of the symbolic inputs"
	ev := map[string]interface{}{
		"property_id": id, "tier": tier, "seed": seed, "level": level, "coverage": cov,
		"assumptions": pc.Assumptions, "wall_s": wall.Seconds(), "violations": nViol,
	}
	os.MkdirAll(filepath.Join(verif, "evidence"), 0o755)
	b, _ := json.MarshalIndent(ev, "", " ")
	os.WriteFile(filepath.Join(verif, "evidence", id+".json"), b, 0o644)
}

package main

import (
	"fmt"
	"os"
	"go/constant"
	"go/token"
	"go/types"
	"sort"
	"strings"
	"sync"

	"golang.org/x/tools/go/ssa"
)

// ---------------------------------------------------------------------------
// static per-function info (shared by all workers)

type fnInfo struct {
	idx  map[ssa.Value]int
	nval int
}

var fnInfoCache sync.Map

func infoOf(fn *ssa.Function) *fnInfo {
	if v, ok := fnInfoCache.Load(fn); ok {
		return v.(*fnInfo)
	}
	fi := &fnInfo{idx: map[ssa.Value]int{}}
	n := 0
	for _, p := range fn.Params {
		fi.idx[p] = n
		n++
	}
	for _, fv := range fn.FreeVars {
		fi.idx[fv] = n
		n++
	}
	for _, b := range fn.Blocks {
		for _, in := range b.Instrs {
			if v, ok := in.(ssa.Value); ok {
				fi.idx[v] = n
				n++
			}
		}
	}
	fi.nval = n
	fnInfoCache.Store(fn, fi)
	return fi
}

// ---------------------------------------------------------------------------
// dynamic state

type deferred struct {
	callee *closure // resolved function value (fn+env) or intrinsic
	args   []Value
}

type Frame struct {
	fn        *ssa.Function
	info      *fnInfo
	env       []Value
	block     *ssa.BasicBlock
	prev      *ssa.BasicBlock
	pc        int
	defers    []*deferred
	unwinding bool
	retTo     ssa.Value // instruction in the caller receiving the result
	asDefer   bool      // invoked as a deferred call by the frame below
	visits    map[*ssa.BasicBlock]int
	results   []Value // set by Return
	returned  bool
}

type tstate int

const (
	tRunnable tstate = iota
	tBlocked
	tSleeping
	tDone
)

type selCase struct {
	ch   *chanObj
	send bool
	val  Value
}

type selResult struct {
	idx    int
	val    Value
	ok     bool
	closed bool
}

type Thread struct {
	id         int
	frames     []*Frame
	state      tstate
	waitFn     func() bool
	waitWhat   string
	selCases   []selCase
	selRes     *selResult
	panicking  bool
	panicVal   Value
	panicMsg   string
	crashed    bool
	inQuiesce  bool
	fnName     string
	recoverTok bool
	parked     bool // pre-empted: delayed until every other thread has run to a block (delay bounding)
}

type pathEnd struct {
	kind string // "done", "infeasible", "assume", "violation", "unsupported", "bound"
	msg  string
}

type Decision struct {
	Kind string `json:"k"`
	Alt  int    `json:"a"`
	N    int    `json:"n"`
	Pos  string `json:"pos,omitempty"` // pre-emption decisions: source position of the visible operation
	Hit  int    `json:"hit,omitempty"` // ... and how many times that position had been reached on this path
}

type nondetRec struct {
	Label string
	T     *Term
}

type Exec struct {
	eng       *Engine
	w         *Worker
	tc        *TermCtx
	sol       *Solver
	pc        []*Term
	pcSent    int
	prefix    []int
	decisions []Decision
	newPrefix [][]int // sibling prefixes discovered on this path

	threads  []*Thread
	cur      *Thread
	globals  map[*ssa.Global]*Value
	initDone map[*ssa.Package]bool
	nondets  []nondetRec
	steps    int
	clock    int64
	nextID   int

	mutexes map[*Value]*mutexState
	wgs     map[*Value]*wgState
	syncMaps map[*Value]*mapObj // sync.Map model: an association list per map object
	timers  []*vtimer
	tick    int

	reached   map[string]bool
	observes  []obsRec
	actions   []string
	asserts   int
	assumes   map[string]bool
	preempt   int // remaining pre-emption budget
	hashSyms  map[string]*Term
	wfShard   map[string]int
	model     map[string]uint64 // last satisfying assignment of the path condition (nil: none)
	modelOK   bool
	errCodes  map[*Value]int
	stubsHit  map[string]bool
	funcsHit  map[*ssa.Function]bool
	lenient   int
	maxVisits int
	mapOrder  int
	chanScale int
	tracked   map[string]Value
	violation *Violation
	curSite   *ssa.Call
	sample    *PathSample
	posHits   map[string]int
	unknowns  int
	cfg       map[string]int64
}

type Violation struct {
	Label     string
	Msg       string
	Model     map[string]uint64
	Nondets   []NondetVal
	Decisions []Decision
	Actions   []string
	Observes  []string
	Threads   []string // thread states at the point of the violation
}

// obsRec is one verifObserve call: concrete parts are strings, symbolic parts terms
// that are rendered under a model when the path is sampled or reported.
type obsRec struct {
	label string
	vals  []interface{}
}

func (ex *Exec) renderObserves(model map[string]uint64) []string {
	var out []string
	memo := map[int]uint64{}
	for _, o := range ex.observes {
		s := o.label
		for _, v := range o.vals {
			switch x := v.(type) {
			case string:
				s += " " + x
			case *Term:
				val := eval(x, model, memo)
				if x.w == 0 {
					s += fmt.Sprintf(" %v", val == 1)
				} else {
					s += fmt.Sprintf(" %d", sext(val, x.w))
				}
			}
		}
		out = append(out, s)
	}
	return out
}

type NondetVal struct {
	Label string `json:"label"`
	Val   uint64 `json:"val"`
	W     int    `json:"w"`
}

func (ex *Exec) fresh() int { ex.nextID++; return ex.nextID }

// ---------------------------------------------------------------------------
// path condition and decisions

func (ex *Exec) addPC(t *Term) {
	if t.IsConst() {
		if t.c == 0 {
			panic(pathEnd{kind: "infeasible"})
		}
		return
	}
	ex.pc = append(ex.pc, t)
	if ex.modelOK {
		if !ex.evalBool(t) {
			ex.modelOK = false
		}
	}
}

// evalBool evaluates a Bool term under the cached model (unconstrained
// variables default to zero, which is part of that model).
func (ex *Exec) evalBool(t *Term) bool {
	if ex.hasApp(t) {
		ex.modelOK = false
		return false
	}
	return eval(t, ex.model, map[int]uint64{}) == 1
}

func (ex *Exec) hasApp(t *Term) bool {
	if t.op == OpApp {
		return true
	}
	for _, a := range t.args {
		if ex.hasApp(a) {
			return true
		}
	}
	return false
}

// refreshModel reads the values of all symbols after a sat answer (a scope
// with the model must still be open).
func (ex *Exec) refreshModel() {
	var ts []*Term
	for _, n := range ex.nondets {
		ts = append(ts, n.T)
	}
	vals := ex.sol.Values(ex.tc, ts)
	m := map[string]uint64{}
	for _, n := range ex.nondets {
		m[n.T.name] = vals[n.T.id]
	}
	ex.model = m
	ex.modelOK = true
}

func (ex *Exec) flushPC() {
	if ex.pcSent == 0 {
		ex.sol.Reset()
	}
	for ; ex.pcSent < len(ex.pc); ex.pcSent++ {
		ex.sol.Assert(ex.tc, ex.pc[ex.pcSent])
	}
	if ex.pcSent == 0 {
		ex.pcSent = 0
	}
}

func (ex *Exec) check(extra *Term) SatResult {
	if extra != nil && extra.IsConst() && extra.c == 0 {
		return Unsat
	}
	ex.solverTouched()
	ex.flushPC()
	if extra != nil && extra.IsConst() {
		extra = nil
	}
	r := ex.sol.Check(ex.tc, extra, false)
	if r == Unknown {
		ex.unknowns++
	}
	return r
}

// checkKeepModel is check() that also caches the model of a sat answer when
// no model is cached (the model then satisfies pc and extra).
func (ex *Exec) checkKeepModel(extra *Term) SatResult {
	if ex.modelOK || extra == nil || extra.IsConst() {
		return ex.check(extra)
	}
	ex.flushPC()
	r := ex.sol.Check(ex.tc, extra, true)
	if r == Sat {
		ex.refreshModel()
		// the model satisfies pc and extra; it stays valid for pc, and for the
		// alternative only if that alternative is the one taken (addPC re-checks)
	}
	ex.sol.PopScope()
	if r == Unknown {
		ex.unknowns++
	}
	return r
}

func (ex *Exec) solverTouched() {
	if !ex.w.solverFresh {
		return
	}
	ex.w.solverFresh = false
}

// decide picks one of n alternatives. conds (optional) gives the constraint of
// each alternative; exhaustive says the alternatives cover all cases, so the
// last one need not be checked when all others are infeasible.
func (ex *Exec) decide(kind string, n int, conds []*Term, exhaustive bool) int {
	pos := len(ex.decisions)
	if pos < len(ex.prefix) {
		alt := ex.prefix[pos]
		if alt >= n {
			panic(pathEnd{kind: "unsupported", msg: fmt.Sprintf("prefix replay diverged at %d (%s): alt %d of %d", pos, kind, alt, n)})
		}
		ex.decisions = append(ex.decisions, Decision{Kind: kind, Alt: alt, N: n})
		if conds != nil {
			ex.addPC(conds[alt])
		}
		return alt
	}
	if pos >= ex.eng.maxDepth {
		panic(pathEnd{kind: "bound", msg: "decision depth"})
	}
	var feas []int
	for i := 0; i < n; i++ {
		if conds == nil {
			feas = append(feas, i)
			continue
		}
		c := conds[i]
		if c.IsConst() {
			if c.c == 1 {
				feas = append(feas, i)
			}
			continue
		}
		if exhaustive && i == n-1 && len(feas) == 0 {
			feas = append(feas, i)
			continue
		}
		if ex.modelOK && ex.evalBool(c) {
			feas = append(feas, i) // the cached model is a witness
			continue
		}
		r := ex.checkKeepModel(c)
		if r != Unsat {
			feas = append(feas, i)
		}
	}
	if len(feas) == 0 {
		panic(pathEnd{kind: "infeasible"})
	}
	alt := feas[0]
	for _, j := range feas[1:] {
		np := make([]int, pos+1)
		for i, d := range ex.decisions {
			np[i] = d.Alt
		}
		np[pos] = j
		ex.newPrefix = append(ex.newPrefix, np)
	}
	ex.decisions = append(ex.decisions, Decision{Kind: kind, Alt: alt, N: n})
	if conds != nil {
		ex.addPC(conds[alt])
	}
	return alt
}

// branch decides a symbolic boolean.
func (ex *Exec) branch(c *Term, kind string) bool {
	if c.IsConst() {
		return c.c == 1
	}
	alt := ex.decide(kind, 2, []*Term{c, ex.tc.Not(c)}, true)
	return alt == 0
}

// concretize forks over the feasible values of t. The chosen value itself is
// stored in the decision, so prefix replay needs no solver call.
func (ex *Exec) concretize(t *Term, what string) uint64 {
	if t.IsConst() {
		return t.c
	}
	pos := len(ex.decisions)
	if pos < len(ex.prefix) {
		v := uint64(ex.prefix[pos]) & maskB(t.w)
		ex.decisions = append(ex.decisions, Decision{Kind: "conc:" + what, Alt: ex.prefix[pos], N: -1})
		ex.addPC(ex.tc.Eq(t, ex.tc.Const(t.w, v)))
		return v
	}
	if pos >= ex.eng.maxDepth {
		panic(pathEnd{kind: "bound", msg: "decision depth"})
	}
	var vals []uint64
	ex.flushPC()
	ex.sol.emit(ex.tc, t)
	excl := ex.tc.tt
	for {
		if len(vals) > ex.eng.maxConcretize {
			panic(pathEnd{kind: "bound", msg: "concretize " + what + ": too many values"})
		}
		r := ex.sol.Check(ex.tc, excl, true)
		if r == Unknown {
			ex.sol.PopScope()
			ex.unknowns++
			panic(pathEnd{kind: "unsupported", msg: "solver unknown in concretize"})
		}
		if r == Unsat {
			ex.sol.PopScope()
			break
		}
		v := ex.sol.Values(ex.tc, []*Term{t})[t.id]
		ex.sol.PopScope()
		vals = append(vals, v)
		excl = ex.tc.And(excl, ex.tc.Not(ex.tc.Eq(t, ex.tc.Const(t.w, v))))
	}
	if len(vals) == 0 {
		panic(pathEnd{kind: "infeasible"})
	}
	for _, v := range vals[1:] {
		np := make([]int, pos+1)
		for i, d := range ex.decisions {
			np[i] = d.Alt
		}
		np[pos] = int(v)
		ex.newPrefix = append(ex.newPrefix, np)
	}
	ex.decisions = append(ex.decisions, Decision{Kind: "conc:" + what, Alt: int(vals[0]), N: -1})
	ex.addPC(ex.tc.Eq(t, ex.tc.Const(t.w, vals[0])))
	return vals[0]
}

// ---------------------------------------------------------------------------
// running

func (ex *Exec) newThread(name string) *Thread {
	th := &Thread{id: len(ex.threads), fnName: name}
	ex.threads = append(ex.threads, th)
	return th
}

func (ex *Exec) pushFrame(th *Thread, fn *ssa.Function, args []Value, env []Value, retTo ssa.Value) *Frame {
	if fn.Blocks == nil {
		panic(unsupported("call of function without body: " + fn.String()))
	}
	if len(th.frames) > 400 {
		panic(pathEnd{kind: "bound", msg: "call depth"})
	}
	ex.funcsHit[fn] = true
	fi := infoOf(fn)
	fr := &Frame{fn: fn, info: fi, env: make([]Value, fi.nval), block: fn.Blocks[0], retTo: retTo}
	if len(args) != len(fn.Params) {
		panic(unsupported(fmt.Sprintf("arg count mismatch calling %s: %d vs %d", fn, len(args), len(fn.Params))))
	}
	for i, p := range fn.Params {
		fr.env[fi.idx[p]] = args[i]
	}
	for i, fv := range fn.FreeVars {
		fr.env[fi.idx[fv]] = env[i]
	}
	th.frames = append(th.frames, fr)
	return fr
}

func (ex *Exec) get(fr *Frame, v ssa.Value) Value {
	switch x := v.(type) {
	case *ssa.Const:
		return ex.constVal(x)
	case *ssa.Function:
		return &closure{fn: x}
	case *ssa.Global:
		return Ptr{slot: ex.globalSlot(x)}
	case *ssa.Builtin:
		return &closure{intr: "builtin:" + x.Name()}
	}
	i, ok := fr.info.idx[v]
	if !ok {
		panic(unsupported(fmt.Sprintf("unknown ssa value %T %s in %s", v, v.Name(), fr.fn)))
	}
	return fr.env[i]
}

func (ex *Exec) set(fr *Frame, v ssa.Value, val Value) {
	fr.env[fr.info.idx[v]] = val
}

func (ex *Exec) constVal(c *ssa.Const) Value {
	t := c.Type()
	if c.Value == nil {
		return ex.zero(t)
	}
	switch u := t.Underlying().(type) {
	case *types.Basic:
		if w, signed, ok := intWidth(u); ok {
			if w == 0 {
				return ex.tc.Bool(constant.BoolVal(c.Value))
			}
			if signed {
				return ex.tc.Const(w, uint64(c.Int64()))
			}
			return ex.tc.Const(w, c.Uint64())
		}
		switch u.Kind() {
		case types.String, types.UntypedString:
			return strV{s: constant.StringVal(c.Value)}
		case types.Float32, types.Float64, types.UntypedFloat:
			return floatV(c.Float64())
		}
	case *types.TypeParam:
	}
	panic(unsupported("const of type " + t.String()))
}

func (ex *Exec) globalSlot(g *ssa.Global) *Value {
	if s, ok := ex.globals[g]; ok {
		return s
	}
	// allocate every global of the package, then run the package initializer
	// lazily (imports' initializers are triggered by their own globals).
	pkg := g.Pkg
	if pkg != nil && !ex.initDone[pkg] {
		ex.initDone[pkg] = true
		for _, m := range pkg.Members {
			if gg, ok := m.(*ssa.Global); ok {
				if _, ok := ex.globals[gg]; !ok {
					z := ex.zero(gg.Type().(*types.Pointer).Elem())
					ex.globals[gg] = &z
				}
			}
		}
		ex.runInit(pkg)
	}
	if s, ok := ex.globals[g]; ok {
		return s
	}
	z := ex.zero(g.Type().(*types.Pointer).Elem())
	ex.globals[g] = &z
	return &z
}

// runInit interprets a package initializer on a private thread in lenient
// mode: calls that cannot be interpreted yield opaque/zero values instead of
// aborting the path (initializers build tables and error values only).
func (ex *Exec) runInit(pkg *ssa.Package) {
	initFn := pkg.Func("init")
	if initFn == nil || initFn.Blocks == nil {
		return
	}
	if ex.eng.skipInit(pkg.Pkg.Path()) {
		return
	}
	saved := ex.cur
	th := &Thread{id: -1, fnName: "init:" + pkg.Pkg.Path()}
	ex.lenient++
	ex.pushFrame(th, initFn, nil, nil, nil)
	ex.cur = th
	budget := 2000000
	for th.state == tRunnable && len(th.frames) > 0 {
		ex.lenientStep(th)
		budget--
		if budget == 0 {
			break
		}
	}
	if os.Getenv("VERIF_DEBUG_INIT") != "" {
		fmt.Fprintf(os.Stderr, "init %s: state=%v frames=%d budget=%d\n", pkg.Pkg.Path(), th.state, len(th.frames), budget)
	}
	ex.lenient--
	ex.cur = saved
}

// lenientStep executes one step of an initializer; a construct the engine
// cannot interpret abandons the outermost call made by the initializer and
// gives it an opaque/zero result (recorded as a stub).
func (ex *Exec) lenientStep(th *Thread) {
	defer func() {
		if r := recover(); r != nil {
			if _, ok := r.(unsupportedErr); !ok {
				if pe, ok := r.(pathEnd); !ok || pe.kind != "unsupported" {
					panic(r)
				}
			}
			if os.Getenv("VERIF_DEBUG_INIT") != "" {
				fmt.Fprintf(os.Stderr, "lenient-init %s: %v\n", th.fnName, r)
			}
			ex.lenientAbandon(th)
		}
	}()
	if os.Getenv("VERIF_DEBUG_INIT") == "2" && len(th.frames) > 0 {
		fr := th.frames[len(th.frames)-1]
		if fr.pc < len(fr.block.Instrs) {
			fmt.Fprintf(os.Stderr, "  [%s b%d] %v\n", fr.fn.Name(), fr.block.Index, fr.block.Instrs[fr.pc])
		}
	}
	ex.step(th)
	// a Go panic raised inside an initializer's callee (nil hook variables of packages whose own
	// initializer is skipped, ...) is treated like an uninterpretable construct
	if th.panicking && len(th.frames) == 1 && th.frames[0].unwinding && len(th.frames[0].defers) == 0 {
		if os.Getenv("VERIF_DEBUG_INIT") != "" {
			fmt.Fprintf(os.Stderr, "lenient-init %s: go panic in callee: %s\n", th.fnName, th.panicMsg)
		}
		ex.lenientAbandon(th)
	}
}

func (ex *Exec) lenientAbandon(th *Thread) {
	if len(th.frames) == 0 {
		return
	}
	th.frames = th.frames[:1]
	fr := th.frames[0]
	fr.unwinding = false
	th.panicking = false
	th.state = tRunnable
	if fr.pc < len(fr.block.Instrs) {
		in := fr.block.Instrs[fr.pc]
		if call, ok := in.(*ssa.Call); ok {
			ex.set(fr, call, ex.noopResult(call.Common().Signature()))
		} else if v, ok := in.(ssa.Value); ok {
			ex.set(fr, v, ex.zeroOrOpaque(v.Type()))
		}
		ex.stubsHit["lenient-init:"+fr.fn.Pkg.Pkg.Path()] = true
		fr.pc++
	}
}

func (ex *Exec) zeroOrOpaque(t types.Type) Value {
	defer func() { recover() }()
	return ex.zero(t)
}

// mainLoop runs threads until the harness thread has finished.
func (ex *Exec) mainLoop() {
	for {
		th := ex.cur
		if th == nil || th.state != tRunnable {
			th = ex.pick()
			if th == nil {
				return
			}
			ex.cur = th
		}
		ex.step(th)
	}
}

func (ex *Exec) runnable(th *Thread) bool {
	switch th.state {
	case tRunnable:
		return true
	case tBlocked:
		if th.waitFn != nil && th.waitFn() {
			return true
		}
	}
	return false
}

// pick selects the next thread when the current one cannot continue.
func (ex *Exec) pick() *Thread {
	main := ex.threads[0]
	for {
		var cands, parked []*Thread
		for _, t := range ex.threads {
			if t == main && main.inQuiesce {
				continue
			}
			if ex.runnable(t) {
				if t.parked {
					parked = append(parked, t)
				} else {
					cands = append(cands, t)
				}
			}
		}
		if len(cands) == 0 && len(parked) > 0 {
			// everybody else has run to a block: the delayed threads resume
			for _, t := range parked {
				t.parked = false
			}
			cands = parked
		}
		if len(cands) > 0 {
			idx := 0
			if len(cands) > 1 && ex.preempt > 0 {
				idx = ex.decide("sched", len(cands), nil, false)
				if idx != 0 {
					ex.preempt--
				}
			}
			t := cands[idx]
			t.state = tRunnable
			t.waitFn = nil
			return t
		}
		if main.state == tDone {
			return nil
		}
		if main.inQuiesce {
			main.inQuiesce = false
			main.state = tRunnable
			main.waitFn = nil
			return main
		}
		// main is blocked and nobody can run: deadlock
		ex.reportViolation("deadlock", "harness thread blocked on "+main.waitWhat+" with no runnable thread")
		return nil
	}
}

func (ex *Exec) wakeSleepers() {
	ex.tick++
	for _, t := range ex.threads {
		if t.state == tSleeping {
			t.state = tRunnable
		}
	}
}

func (ex *Exec) block(th *Thread, what string, fn func() bool) {
	th.state = tBlocked
	th.waitFn = fn
	th.waitWhat = what
}

// maybePreempt is called before a visible operation.
func (ex *Exec) maybePreempt(th *Thread, what string) bool {
	if ex.preempt <= 0 || ex.lenient > 0 {
		return false
	}
	var others []*Thread
	for _, t := range ex.threads {
		if t != th && !(t.id == 0 && t.inQuiesce) && ex.runnable(t) {
			others = append(others, t)
		}
	}
	if len(others) == 0 {
		return false
	}
	pos := ex.posOf(th)
	ex.posHits[pos]++
	alt := ex.decide("preempt:"+what, 1+len(others), nil, false)
	if alt == 0 {
		return false
	}
	d := &ex.decisions[len(ex.decisions)-1]
	d.Pos, d.Hit = pos, ex.posHits[pos]
	ex.preempt--
	th.parked = true
	t := others[alt-1]
	t.state = tRunnable
	t.waitFn = nil
	ex.cur = t
	return true
}

// posOf returns file:line of the instruction the thread is about to execute.
func (ex *Exec) posOf(th *Thread) string {
	if len(th.frames) == 0 {
		return ""
	}
	fr := th.frames[len(th.frames)-1]
	if fr.pc >= len(fr.block.Instrs) {
		return ""
	}
	p := ex.eng.prog.Fset.Position(fr.block.Instrs[fr.pc].Pos())
	if !p.IsValid() {
		return ""
	}
	return fmt.Sprintf("%s:%d", p.Filename, p.Line)
}

func (ex *Exec) reportViolation(label, msg string) {
	if ex.violation == nil {
		ex.violation = &Violation{Label: label, Msg: msg}
	}
	panic(pathEnd{kind: "violation", msg: label + ": " + msg})
}

// ---------------------------------------------------------------------------
// panics

func (ex *Exec) goPanic(th *Thread, val Value, msg string) {
	th.panicking = true
	th.panicVal = val
	th.panicMsg = msg
	if len(th.frames) == 0 {
		ex.threadCrashed(th)
		return
	}
	th.frames[len(th.frames)-1].unwinding = true
}

func (ex *Exec) runtimePanic(th *Thread, msg string) {
	ex.goPanic(th, ifaceV{t: ex.eng.runtimeErrT, v: strV{s: "runtime error: " + msg}}, "runtime error: "+msg)
}

func (ex *Exec) threadCrashed(th *Thread) {
	th.crashed = true
	th.state = tDone
	if ex.lenient > 0 {
		return
	}
	// an unrecovered panic on any goroutine kills the process
	ex.reportViolation("unrecovered-panic", fmt.Sprintf("goroutine %d (%s): %s", th.id, th.fnName, th.panicMsg))
}

// ---------------------------------------------------------------------------
// step: execute one instruction (or one unwinding action) of a thread

func (ex *Exec) step(th *Thread) {
	ex.steps++
	if ex.steps > ex.eng.maxSteps {
		panic(pathEnd{kind: "bound", msg: "step budget"})
	}
	if len(th.frames) == 0 {
		th.state = tDone
		return
	}
	fr := th.frames[len(th.frames)-1]
	if fr.unwinding {
		ex.unwindStep(th, fr)
		return
	}
	if fr.pc >= len(fr.block.Instrs) {
		panic(unsupported("fell off block in " + fr.fn.String()))
	}
	in := fr.block.Instrs[fr.pc]
	ex.exec(th, fr, in)
}

func (ex *Exec) unwindStep(th *Thread, fr *Frame) {
	if n := len(fr.defers); n > 0 {
		d := fr.defers[n-1]
		fr.defers = fr.defers[:n-1]
		ex.invokeDeferred(th, fr, d)
		return
	}
	if !th.panicking {
		// recovered: resume at the Recover block, or return zero values
		fr.unwinding = false
		if fr.fn.Recover != nil {
			fr.prev = fr.block
			fr.block = fr.fn.Recover
			fr.pc = 0
			return
		}
		res := fr.fn.Signature.Results()
		var vals []Value
		for i := 0; i < res.Len(); i++ {
			vals = append(vals, ex.zero(res.At(i).Type()))
		}
		ex.doReturn(th, fr, vals)
		return
	}
	// still panicking: pop the frame and continue in the caller
	th.frames = th.frames[:len(th.frames)-1]
	if len(th.frames) == 0 {
		ex.threadCrashed(th)
		return
	}
	th.frames[len(th.frames)-1].unwinding = true
}

func (ex *Exec) invokeDeferred(th *Thread, fr *Frame, d *deferred) {
	if d.callee == nil {
		ex.runtimePanic(th, "invalid memory address or nil pointer dereference (nil deferred func)")
		return
	}
	if d.callee.intr != "" {
		args := append(append([]Value{}, d.callee.bound...), d.args...)
		_, blocked := ex.callIntrinsic(th, d.callee.intr, args, nil)
		if blocked {
			panic(unsupported("blocking intrinsic in deferred call: " + d.callee.intr))
		}
		return
	}
	nf := ex.pushFrame(th, d.callee.fn, d.args, d.callee.env, nil)
	nf.asDefer = true
}

func (ex *Exec) doReturn(th *Thread, fr *Frame, vals []Value) {
	th.frames = th.frames[:len(th.frames)-1]
	if len(th.frames) == 0 {
		th.state = tDone
		return
	}
	caller := th.frames[len(th.frames)-1]
	if fr.asDefer {
		// caller is either at RunDefers or unwinding; it re-examines its defer list
		return
	}
	if fr.retTo != nil {
		var rv Value
		switch len(vals) {
		case 0:
			rv = nil
		case 1:
			rv = vals[0]
		default:
			rv = tupleV(vals)
		}
		ex.set(caller, fr.retTo, rv)
	}
	caller.pc++
}

func (ex *Exec) jump(fr *Frame, to *ssa.BasicBlock) {
	if fr.visits == nil {
		fr.visits = map[*ssa.BasicBlock]int{}
	}
	fr.visits[to]++
	if th := ex.cur; th != nil && th.id != 0 && ex.lenient == 0 && fr.visits[to] > ex.maxVisits/5 {
		// a worker goroutine that keeps going round a loop (a fifth of the loop bound) is treated as
		// spinning: it is parked for good, counts as a live thread, and the harness goes on - its
		// liveness assertions (handler returned, no worker left) then decide. Recorded in the evidence.
		ex.stubsHit[fmt.Sprintf("spinning-thread-parked:%s", fr.fn)] = true
		th.state = tBlocked
		th.waitFn = func() bool { return false }
		th.waitWhat = "spinning (loop bound)"
		fr.visits[to] = 0
	} else if fr.visits[to] > ex.maxVisits {
		panic(pathEnd{kind: "bound", msg: fmt.Sprintf("loop bound %d at %s block %d", ex.maxVisits, fr.fn, to.Index)})
	}
	fr.prev = fr.block
	fr.block = to
	fr.pc = 0
	// phis are evaluated simultaneously
	var vals []Value
	var phis []*ssa.Phi
	for _, in := range to.Instrs {
		phi, ok := in.(*ssa.Phi)
		if !ok {
			break
		}
		idx := -1
		for i, p := range to.Preds {
			if p == fr.prev {
				idx = i
				break
			}
		}
		vals = append(vals, ex.get(fr, phi.Edges[idx]))
		phis = append(phis, phi)
	}
	for i, phi := range phis {
		ex.set(fr, phi, vals[i])
	}
	fr.pc = len(phis)
}

func (ex *Exec) exec(th *Thread, fr *Frame, in ssa.Instruction) {
	switch x := in.(type) {
	case *ssa.DebugRef:
		fr.pc++
	case *ssa.Alloc:
		z := ex.zero(x.Type().(*types.Pointer).Elem())
		ex.set(fr, x, Ptr{slot: &z})
		fr.pc++
	case *ssa.BinOp:
		r := ex.binop(th, x.Op, x.X.Type(), ex.get(fr, x.X), ex.get(fr, x.Y), x.Y.Type())
		if th.panicking && fr.unwinding {
			return
		}
		ex.set(fr, x, r)
		fr.pc++
	case *ssa.UnOp:
		ex.unop(th, fr, x)
	case *ssa.Call:
		ex.doCall(th, fr, x.Common(), x)
	case *ssa.ChangeInterface:
		ex.set(fr, x, ex.get(fr, x.X))
		fr.pc++
	case *ssa.ChangeType:
		ex.set(fr, x, ex.get(fr, x.X))
		fr.pc++
	case *ssa.Convert:
		ex.set(fr, x, ex.convert(ex.get(fr, x.X), x.X.Type(), x.Type()))
		fr.pc++
	case *ssa.MultiConvert:
		ex.set(fr, x, ex.convert(ex.get(fr, x.X), x.X.Type(), x.Type()))
		fr.pc++
	case *ssa.SliceToArrayPointer:
		sv := ex.get(fr, x.X).(sliceV)
		n := int(x.Type().(*types.Pointer).Elem().Underlying().(*types.Array).Len())
		if len(sv.arr) < n {
			ex.runtimePanic(th, "slice to array pointer: length too short")
			return
		}
		if n == 0 && sv.isNil {
			ex.set(fr, x, Ptr{})
		} else {
			var v Value = arrayV(sv.arr[:n:n])
			ex.set(fr, x, Ptr{slot: &v})
		}
		fr.pc++
	case *ssa.Defer:
		callee, args := ex.resolveCall(th, fr, x.Common())
		if th.panicking && fr.unwinding {
			return
		}
		fr.defers = append(fr.defers, &deferred{callee: callee, args: args})
		fr.pc++
	case *ssa.Extract:
		ex.set(fr, x, ex.get(fr, x.Tuple).(tupleV)[x.Index])
		fr.pc++
	case *ssa.Field:
		ex.set(fr, x, copyVal(ex.get(fr, x.X).(structV)[x.Field]))
		fr.pc++
	case *ssa.FieldAddr:
		p := ex.get(fr, x.X).(Ptr)
		if p.isNil() {
			ex.runtimePanic(th, "invalid memory address or nil pointer dereference")
			return
		}
		if p.abs != nil {
			st := p.abs.elemT.Underlying().(*types.Struct)
			ex.set(fr, x, Ptr{abs: &absSlice{length: p.abs.length, capa: p.abs.capa, elemT: st.Field(x.Field).Type()}, absIdx: p.absIdx})
			fr.pc++
			return
		}
		if p.slot == nil {
			panic(unsupported("field address through symbolic element pointer"))
		}
		sv, ok := (*p.slot).(structV)
		if !ok {
			panic(unsupported(fmt.Sprintf("FieldAddr on %T in %s", *p.slot, fr.fn)))
		}
		ex.set(fr, x, Ptr{slot: &sv[x.Field]})
		fr.pc++
	case *ssa.Go:
		callee, args := ex.resolveCall(th, fr, x.Common())
		if th.panicking && fr.unwinding {
			return
		}
		ex.spawn(callee, args)
		fr.pc++
	case *ssa.If:
		c := ex.get(fr, x.Cond).(*Term)
		if ex.branch(c, "if") {
			ex.jump(fr, fr.block.Succs[0])
		} else {
			ex.jump(fr, fr.block.Succs[1])
		}
	case *ssa.Jump:
		ex.jump(fr, fr.block.Succs[0])
	case *ssa.Index:
		ex.index(th, fr, x)
	case *ssa.IndexAddr:
		ex.indexAddr(th, fr, x)
	case *ssa.Lookup:
		ex.lookup(th, fr, x)
	case *ssa.MakeChan:
		n := ex.get(fr, x.Size).(*Term)
		capa := int(ex.concretize(n, "chancap"))
		if ex.chanScale > 0 && capa > ex.chanScale {
			capa = ex.chanScale
			ex.stubsHit["chan-capacity-scaled"] = true
		}
		ex.set(fr, x, &chanObj{id: ex.fresh(), capa: capa, elemT: x.Type().Underlying().(*types.Chan).Elem()})
		fr.pc++
	case *ssa.MakeClosure:
		fn := x.Fn.(*ssa.Function)
		env := make([]Value, len(x.Bindings))
		for i, b := range x.Bindings {
			env[i] = ex.get(fr, b)
		}
		ex.set(fr, x, &closure{fn: fn, env: env})
		fr.pc++
	case *ssa.MakeInterface:
		ex.set(fr, x, ifaceV{t: x.X.Type(), v: copyVal(ex.get(fr, x.X))})
		fr.pc++
	case *ssa.MakeMap:
		mt := x.Type().Underlying().(*types.Map)
		ex.set(fr, x, &mapObj{keyT: mt.Key(), valT: mt.Elem(), id: ex.fresh()})
		fr.pc++
	case *ssa.MakeSlice:
		ln := int(ex.concretize(ex.get(fr, x.Len).(*Term), "makeslice-len"))
		cp := int(ex.concretize(ex.get(fr, x.Cap).(*Term), "makeslice-cap"))
		if ln < 0 || cp < ln || cp > 1<<22 {
			ex.runtimePanic(th, "makeslice: len out of range")
			return
		}
		et := x.Type().Underlying().(*types.Slice).Elem()
		arr := make([]Value, cp)
		for i := range arr {
			arr[i] = ex.zero(et)
		}
		ex.set(fr, x, sliceV{arr: arr[:ln]})
		fr.pc++
	case *ssa.MapUpdate:
		ex.mapUpdate(th, fr, x)
	case *ssa.Next:
		ex.next(th, fr, x)
	case *ssa.Panic:
		v := ex.get(fr, x.X)
		msg := "panic"
		if iv, ok := v.(ifaceV); ok {
			if s, ok := iv.v.(strV); ok {
				msg = "panic: " + s.s
			} else {
				msg = fmt.Sprintf("panic: %v", iv.t)
			}
		}
		ex.goPanic(th, v, msg)
	case *ssa.Phi:
		panic(unsupported("phi executed directly"))
	case *ssa.Range:
		ex.rangeInit(th, fr, x)
	case *ssa.Return:
		vals := make([]Value, len(x.Results))
		for i, r := range x.Results {
			vals[i] = ex.get(fr, r)
		}
		ex.doReturn(th, fr, vals)
	case *ssa.RunDefers:
		if n := len(fr.defers); n > 0 {
			d := fr.defers[n-1]
			fr.defers = fr.defers[:n-1]
			ex.invokeDeferred(th, fr, d)
			return
		}
		fr.pc++
	case *ssa.Select:
		ex.doSelect(th, fr, x)
	case *ssa.Send:
		ex.doSend(th, fr, x)
	case *ssa.Slice:
		ex.slice(th, fr, x)
	case *ssa.Store:
		p := ex.get(fr, x.Addr).(Ptr)
		ex.storePtr(th, p, ex.get(fr, x.Val))
		if th.panicking && fr.unwinding {
			return
		}
		fr.pc++
	case *ssa.TypeAssert:
		ex.typeAssert(th, fr, x)
	default:
		panic(unsupported(fmt.Sprintf("instruction %T", in)))
	}
}

func (ex *Exec) spawn(callee *closure, args []Value) {
	if callee == nil {
		panic(unsupported("go nil func"))
	}
	if callee.intr != "" {
		// e.g. go wg.Done(): run immediately on a pseudo thread
		th := ex.newThread(callee.intr)
		a := append(append([]Value{}, callee.bound...), args...)
		_, blocked := ex.callIntrinsic(th, callee.intr, a, nil)
		if blocked {
			panic(unsupported("go of blocking intrinsic " + callee.intr))
		}
		th.state = tDone
		return
	}
	th := ex.newThread(callee.fn.String())
	ex.pushFrame(th, callee.fn, args, callee.env, nil)
}

// ---------------------------------------------------------------------------
// loads and stores

func (ex *Exec) loadPtr(th *Thread, p Ptr) (Value, bool) {
	if p.isNil() {
		ex.runtimePanic(th, "invalid memory address or nil pointer dereference")
		return nil, false
	}
	if p.slot != nil {
		return copyVal(*p.slot), true
	}
	if p.abs != nil {
		// contents of abstract slices are unconstrained
		return ex.freshOfType(p.abs.elemT, "abs"), true
	}
	// symbolic element: ite chain
	n := len(p.symArr)
	var res Value = copyVal(p.symArr[n-1])
	for i := n - 2; i >= 0; i-- {
		c := ex.tc.Eq(p.symIdx, ex.tc.Const(64, uint64(i)))
		m, ok := ex.iteVal(c, p.symArr[i], res)
		if !ok {
			panic(unsupported("symbolic index over non-mergeable elements"))
		}
		res = m
	}
	return res, true
}

func (ex *Exec) storePtr(th *Thread, p Ptr, v Value) {
	if p.isNil() {
		ex.runtimePanic(th, "invalid memory address or nil pointer dereference")
		return
	}
	if p.slot != nil {
		storeSlot(p.slot, v)
		return
	}
	if p.abs != nil {
		return
	}
	for i := range p.symArr {
		c := ex.tc.Eq(p.symIdx, ex.tc.Const(64, uint64(i)))
		m, ok := ex.iteVal(c, v, p.symArr[i])
		if !ok {
			panic(unsupported("symbolic store over non-mergeable elements"))
		}
		storeSlot(&p.symArr[i], m)
	}
}

func (ex *Exec) freshOfType(t types.Type, label string) Value {
	switch u := t.Underlying().(type) {
	case *types.Basic:
		if w, _, ok := intWidth(u); ok {
			return ex.newSym(label, w)
		}
	case *types.Struct:
		s := make(structV, u.NumFields())
		for i := range s {
			s[i] = ex.freshOfType(u.Field(i).Type(), label)
		}
		return s
	}
	return ex.zero(t)
}

func (ex *Exec) newSym(label string, w int) *Term {
	name := fmt.Sprintf("n%d_%s", len(ex.nondets), sanitize(label))
	t := ex.tc.Var(name, w)
	ex.nondets = append(ex.nondets, nondetRec{label, t})
	return t
}

func sanitize(s string) string {
	var sb strings.Builder
	for _, r := range s {
		if (r >= 'a' && r <= 'z') || (r >= 'A' && r <= 'Z') || (r >= '0' && r <= '9') || r == '_' {
			sb.WriteRune(r)
		} else {
			sb.WriteByte('_')
		}
	}
	return sb.String()
}

func (ex *Exec) unop(th *Thread, fr *Frame, x *ssa.UnOp) {
	v := ex.get(fr, x.X)
	switch x.Op {
	case token.MUL:
		r, ok := ex.loadPtr(th, v.(Ptr))
		if !ok {
			return
		}
		ex.set(fr, x, r)
		fr.pc++
	case token.ARROW:
		ex.doRecv(th, fr, x, v)
	case token.NOT:
		ex.set(fr, x, ex.tc.Not(v.(*Term)))
		fr.pc++
	case token.SUB:
		switch t := v.(type) {
		case *Term:
			ex.set(fr, x, ex.tc.Neg(t))
		case floatV:
			ex.set(fr, x, -t)
		default:
			panic(unsupported("unary minus"))
		}
		fr.pc++
	case token.XOR:
		ex.set(fr, x, ex.tc.Not(v.(*Term)))
		fr.pc++
	default:
		panic(unsupported("unop " + x.Op.String()))
	}
}

// ---------------------------------------------------------------------------
// sorted helper for deterministic reporting

func sortedKeys(m map[string]bool) []string {
	var ks []string
	for k := range m {
		ks = append(ks, k)
	}
	sort.Strings(ks)
	return ks
}

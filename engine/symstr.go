package main

import (
	"regexp"
	"strconv"
	"strings"
)

// Symbolic strings: concatenations of literal pieces and canonical decimal renderings of
// integer terms (what strconv.Itoa / fmt.Sprintf("%d") produce). They support equality
// (structurally, which is exact because a decimal rendering contains only [-0-9] and the
// literal separators used in this code base are other characters), strconv.Atoi of a single
// number, concatenation and formatting. Everything else is unsupported.

func normParts(ps []symPart) []symPart {
	var out []symPart
	for _, p := range ps {
		if p.num == nil {
			if p.lit == "" {
				continue
			}
			if n := len(out); n > 0 && out[n-1].num == nil {
				out[n-1].lit += p.lit
				continue
			}
		}
		out = append(out, p)
	}
	return out
}

func (ex *Exec) symNum(t *Term, signed bool) strV {
	if t.IsConst() {
		if signed {
			return strV{s: strconv.FormatInt(sext(t.c, t.w), 10)}
		}
		return strV{s: strconv.FormatUint(t.c, 10)}
	}
	return strV{sym: []symPart{{num: ex.tc.Resize(t, 64, signed)}}}
}

func partsOf(s strV) []symPart {
	if s.sym != nil {
		return s.sym
	}
	return []symPart{{lit: s.s}}
}

func concatStr(a, b strV) strV {
	if a.opaque || b.opaque || a.ite != nil || b.ite != nil {
		return strV{opaque: true}
	}
	if a.sym == nil && b.sym == nil {
		return strV{s: a.s + b.s}
	}
	return strV{sym: normParts(append(append([]symPart{}, partsOf(a)...), partsOf(b)...))}
}

func skeleton(ps []symPart) (string, bool) {
	var sb strings.Builder
	prevNum := false
	for _, p := range ps {
		if p.num != nil {
			if prevNum {
				return "", false // adjacent numbers: ambiguous
			}
			sb.WriteString("\x00")
			prevNum = true
		} else {
			sb.WriteString(p.lit)
			prevNum = false
		}
	}
	return sb.String(), true
}

func (ex *Exec) eqSymStr(x, y strV) *Term {
	tc := ex.tc
	if x.opaque || y.opaque || x.ite != nil || y.ite != nil {
		panic(unsupported("comparison of symbolic string with opaque/ite string"))
	}
	if x.sym != nil && y.sym != nil {
		sx, ok1 := skeleton(x.sym)
		sy, ok2 := skeleton(y.sym)
		if !ok1 || !ok2 {
			panic(unsupported("comparison of ambiguous symbolic strings"))
		}
		if sx == sy {
			r := tc.tt
			j := 0
			for i := range x.sym {
				if x.sym[i].num != nil {
					for y.sym[j].num == nil {
						j++
					}
					r = tc.And(r, tc.Eq(x.sym[i].num, y.sym[j].num))
					j++
				}
			}
			return r
		}
		// different skeletons: decide only the obviously distinct case (diverging literal prefix)
		lx, ly := "", ""
		if x.sym[0].num == nil {
			lx = x.sym[0].lit
		}
		if y.sym[0].num == nil {
			ly = y.sym[0].lit
		}
		n := len(lx)
		if len(ly) < n {
			n = len(ly)
		}
		if lx[:n] != ly[:n] {
			return tc.ff
		}
		panic(unsupported("comparison of symbolic strings with different shapes"))
	}
	if y.sym != nil {
		x, y = y, x
	}
	// x symbolic, y concrete: match y against x's skeleton
	if _, ok := skeleton(x.sym); !ok {
		panic(unsupported("comparison of ambiguous symbolic string"))
	}
	var re strings.Builder
	re.WriteString("^")
	for _, p := range x.sym {
		if p.num != nil {
			re.WriteString("(-?(?:0|[1-9][0-9]*))")
		} else {
			re.WriteString(regexp.QuoteMeta(p.lit))
		}
	}
	re.WriteString("$")
	m := regexp.MustCompile(re.String()).FindStringSubmatch(y.s)
	if m == nil {
		return tc.ff
	}
	r := tc.tt
	k := 1
	for _, p := range x.sym {
		if p.num != nil {
			v, err := strconv.ParseInt(m[k], 10, 64)
			if err != nil || m[k] == "-0" {
				return tc.ff
			}
			r = tc.And(r, tc.Eq(p.num, tc.Const(64, uint64(v))))
			k++
		}
	}
	return r
}

// symSprintf formats with %d/%v/%s/%% only; ok=false when the format needs more.
func (ex *Exec) symSprintf(format string, args []Value) (strV, bool) {
	var parts []symPart
	ai := 0
	for i := 0; i < len(format); i++ {
		c := format[i]
		if c != '%' {
			parts = append(parts, symPart{lit: string(c)})
			continue
		}
		i++
		if i >= len(format) {
			return strV{}, false
		}
		switch format[i] {
		case '%':
			parts = append(parts, symPart{lit: "%"})
		case 'd', 'v', 's':
			if ai >= len(args) {
				return strV{}, false
			}
			iv, ok := args[ai].(ifaceV)
			ai++
			if !ok || iv.t == nil {
				return strV{}, false
			}
			switch v := iv.v.(type) {
			case *Term:
				if v.w == 0 || format[i] == 's' {
					return strV{}, false
				}
				if hasStringMethod(iv.t) {
					return strV{}, false
				}
				parts = append(parts, partsOf(ex.symNum(v, isSigned(iv.t)))...)
			case strV:
				if v.opaque || v.ite != nil || format[i] == 'd' {
					return strV{}, false
				}
				parts = append(parts, partsOf(v)...)
			default:
				return strV{}, false
			}
		default:
			return strV{}, false
		}
	}
	if ai != len(args) {
		return strV{}, false
	}
	parts = normParts(parts)
	hasNum := false
	for _, p := range parts {
		if p.num != nil {
			hasNum = true
		}
	}
	if !hasNum {
		s := ""
		for _, p := range parts {
			s += p.lit
		}
		return strV{s: s}, true
	}
	return strV{sym: parts}, true
}

package main

import (
	"encoding/json"
	"flag"
	"fmt"
	"os"
	"path/filepath"
	"runtime/debug"
	"runtime/pprof"
	"sort"
	"strconv"
	"strings"
	"time"

	"golang.org/x/tools/go/ssa"
)

type multiFlag []string

func (m *multiFlag) String() string     { return strings.Join(*m, ",") }
func (m *multiFlag) Set(s string) error { *m = append(*m, s); return nil }

func main() {
	debug.SetGCPercent(1000)
	memGB := int64(16) // soft limit: GC gets more aggressive near it (several checks may run side by side)
	if v, err := strconv.Atoi(os.Getenv("VERIF_MEMLIMIT_GB")); err == nil && v > 0 {
		memGB = int64(v)
	}
	debug.SetMemoryLimit(memGB << 30)
	if len(os.Args) > 1 && os.Args[1] == "check" {
		os.Exit(checkMain(os.Args[2:]))
	}
	if len(os.Args) > 1 && os.Args[1] == "genc12" {
		src, n, err := genC12("/repo")
		if err != nil {
			fmt.Fprintln(os.Stderr, err)
			os.Exit(2)
		}
		fmt.Fprintf(os.Stderr, "%d event types\n", n)
		os.Stdout.Write(src)
		return
	}
	if len(os.Args) > 1 && os.Args[1] == "genc18" {
		src, n, err := genC18("/repo", 100000)
		if err != nil {
			fmt.Fprintln(os.Stderr, err)
			os.Exit(2)
		}
		fmt.Fprintf(os.Stderr, "%d obligations\n", n)
		os.Stdout.Write(src)
		return
	}
	var (
		repo    = flag.String("repo", "/repo", "repository root")
		pkgPat  = flag.String("pkg", "./proxy", "package pattern relative to repo")
		hdir    = flag.String("harness", "", "directory with harness files to overlay into the package")
		entry   = flag.String("entry", "", "harness entry function")
		workers = flag.Int("workers", 16, "parallel workers")
		maxP    = flag.Int("maxpaths", 200000, "path budget")
		timeout = flag.Duration("timeout", 10*time.Minute, "wall budget")
		solver  = flag.String("solver", "z3 -in", "solver command")
		verbose = flag.Bool("v", false, "verbose")
		fresh   = flag.Bool("fresh", false, "non-incremental solver mode")
		intenc  = flag.Bool("int", false, "integer encoding of bit-vectors")
		params  multiFlag
	)
	cpuprof := flag.String("cpuprofile", "", "write cpu profile")
	var redirects multiFlag
	flag.Var(&redirects, "redirect", "callee=harnessFunc")
	flag.Var(&params, "param", "k=v harness parameter")
	flag.Parse()
	if *cpuprof != "" {
		f, _ := os.Create(*cpuprof)
		pprof.StartCPUProfile(f)
		defer pprof.StopCPUProfile()
	}
	t0 := time.Now()
	overlay, err := buildOverlay(*repo, *pkgPat, *hdir, nil)
	if err != nil {
		fmt.Fprintln(os.Stderr, err)
		os.Exit(2)
	}
	prog, pkg, err := load(*repo, *pkgPat, overlay)
	if err != nil {
		fmt.Fprintln(os.Stderr, err)
		os.Exit(2)
	}
	fmt.Fprintf(os.Stderr, "loaded in %v\n", time.Since(t0))
	e := newEngine(prog, pkg, strings.Fields(*solver))
	e.maxPaths = *maxP
	e.redirect = map[string]string{}
	for _, r := range redirects {
		kv := strings.SplitN(r, "=", 2)
		e.redirect[kv[0]] = kv[1]
	}
	e.solverFresh = *fresh
	e.solverInt = *intenc
	e.deadline = time.Now().Add(*timeout)
	for _, p := range params {
		kv := strings.SplitN(p, "=", 2)
		v, _ := strconv.ParseInt(kv[1], 10, 64)
		e.params[kv[0]] = v
	}
	fn := pkg.Func(*entry)
	if fn == nil {
		fmt.Fprintln(os.Stderr, "entry not found:", *entry)
		os.Exit(2)
	}
	t1 := time.Now()
	res := e.explore(fn, *workers)
	printResult(res, time.Since(t1), *verbose)
}

func newEngine(prog *ssa.Program, pkg *ssa.Package, solver []string) *Engine {
	e := &Engine{prog: prog, pkg: pkg, solverBin: solver, params: map[string]int64{},
		maxDepth: 4000, maxSteps: 20000000, maxConcretize: 64, maxPaths: 200000, maxVisits: 5000, stopOnViol: 20, maxSamples: 4}
	if err := e.setupTypes(); err != nil {
		fmt.Fprintln(os.Stderr, err)
		os.Exit(2)
	}
	return e
}

// buildOverlay maps every *.go file of the harness directory (plus the rt
// file for the engine) into the package directory under a zz_verif_ prefix.
func buildOverlay(repo, pkgPat, hdir string, extra map[string][]byte) (map[string][]byte, error) {
	ov := map[string][]byte{}
	pkgDir := filepath.Join(repo, pkgPat)
	if hdir != "" {
		files, err := filepath.Glob(filepath.Join(hdir, "*.go"))
		if err != nil {
			return nil, err
		}
		for _, f := range files {
			b, err := os.ReadFile(f)
			if err != nil {
				return nil, err
			}
			ov[filepath.Join(pkgDir, "zz_verif_"+filepath.Base(f))] = b
		}
		// engine-side runtime (declarations only)
		rt, err := os.ReadFile(filepath.Join(filepath.Dir(hdir), "rt", "rt_engine.go.txt"))
		if err == nil {
			pkgName, err := packageNameOf(files)
			if err != nil {
				return nil, err
			}
			ov[filepath.Join(pkgDir, "zz_verif_rt.go")] = []byte(strings.Replace(string(rt), "package PKG", "package "+pkgName, 1))
		}
	}
	for k, v := range extra {
		ov[k] = v
	}
	return ov, nil
}

func packageNameOf(files []string) (string, error) {
	for _, f := range files {
		b, err := os.ReadFile(f)
		if err != nil {
			return "", err
		}
		for _, l := range strings.Split(string(b), "\n") {
			l = strings.TrimSpace(l)
			if strings.HasPrefix(l, "package ") {
				return strings.Fields(l)[1], nil
			}
		}
	}
	return "", fmt.Errorf("no package clause in harness files")
}

func printResult(res *RunResult, wall time.Duration, verbose bool) {
	fmt.Printf("paths=%d ends=%v decisions=%d steps=%d asserts=%d queries=%d solver=%v unknowns=%d maxdepth=%d wall=%v\n",
		res.Paths, res.Ends, res.Decisions, res.Steps, res.Asserts, res.Queries, res.SolverTime.Round(time.Millisecond), res.Unknowns, res.MaxDepth, wall.Round(time.Millisecond))
	if res.Truncated != "" {
		fmt.Println("TRUNCATED:", res.Truncated)
	}
	fmt.Println("reached:", sortedSet(res.Reached))
	type kv struct {
		k string
		v int
	}
	var us []kv
	for k, v := range res.Unsupported {
		us = append(us, kv{k, v})
	}
	sort.Slice(us, func(i, j int) bool { return us[i].v > us[j].v })
	for i, u := range us {
		if i > 15 {
			break
		}
		fmt.Printf("UNSUPPORTED x%d: %s\n", u.v, u.k)
	}
	for k, v := range res.Bounds {
		fmt.Printf("BOUND x%d: %s\n", v, k)
	}
	for _, e := range res.SolverErrs {
		fmt.Println("SOLVER-ERROR:", e)
	}
	for i, v := range res.Violations {
		if i > 5 {
			break
		}
		b, _ := json.Marshal(v.Nondets)
		fmt.Printf("VIOLATION label=%s msg=%s actions=%v\n  nondets=%s\n  observes=%v\n", v.Label, v.Msg, v.Actions, b, v.Observes)
	}
	if verbose {
		fmt.Println("stubs:", sortedSet(res.Stubs))
		var fs []string
		for f := range res.Funcs {
			if strings.Contains(f, "s2s-proxy") {
				fs = append(fs, f)
			}
		}
		sort.Strings(fs)
		fmt.Println("funcs:", fs)
	}
}

package main

import (
	"fmt"
	"go/types"
	"strconv"
	"strings"
	"unicode/utf8"

	"golang.org/x/tools/go/ssa"
)

type intrinsicFn func(ex *Exec, th *Thread, fn *ssa.Function, args []Value) (Value, bool)

var intrinsics map[string]intrinsicFn
var verifAPI map[string]intrinsicFn

func (ex *Exec) callIntrinsic(th *Thread, name string, args []Value, site *ssa.Call) (Value, bool) {
	switch {
	case strings.HasPrefix(name, "builtin:"):
		sig := args[0].(sigBox).sig
		ats := args[1].(typesBox).ts
		return ex.builtin(th, name[8:], args[2:], sig, ats), false
	case name == "opaque-method":
		return ex.noopResult(args[0].(sigBox).sig), false
	case name == "noop":
		fn := args[0].(fnBox).fn
		ex.stubsHit["noop:"+pkgOf(fn)] = true
		return ex.noopResult(fn.Signature), false
	case strings.HasPrefix(name, "redirect:"):
		// the call is served by a harness function with the same signature (environment stub)
		tgt := ex.eng.pkg.Func(name[9:])
		if tgt == nil {
			panic(unsupported("redirect target not found: " + name[9:]))
		}
		ex.stubsHit["stub:"+fnKey(args[0].(fnBox).fn)+"=>"+name[9:]] = true
		ex.pushFrame(th, tgt, args[1:], nil, ex.curSite)
		return nil, false
	case strings.HasPrefix(name, "verif:"):
		fn := args[0].(fnBox).fn
		return verifAPI[name[6:]](ex, th, fn, args[1:])
	}
	fn := args[0].(fnBox).fn
	ex.stubsHit["intrinsic:"+name] = true
	return intrinsics[name](ex, th, fn, args[1:])
}

func pkgOf(fn *ssa.Function) string {
	if fn.Pkg != nil {
		return fn.Pkg.Pkg.Path()
	}
	if o := fn.Origin(); o != nil && o.Pkg != nil {
		return o.Pkg.Pkg.Path()
	}
	if fn.Signature.Recv() != nil {
		if n := namedOf(fn.Signature.Recv().Type()); n != nil && n.Obj().Pkg() != nil {
			return n.Obj().Pkg().Path()
		}
	}
	return "?"
}

func cstr(v Value) string {
	s, ok := v.(strV)
	if !ok || s.opaque || s.ite != nil || s.sym != nil {
		panic(unsupported("concrete string expected"))
	}
	return s.s
}

func (ex *Exec) cint(v Value, what string) int64 {
	t := v.(*Term)
	return sext(ex.concretize(t, what), t.w)
}

func (ex *Exec) mkInt(v int64) *Term { return ex.tc.Const(64, uint64(v)) }

func (ex *Exec) nilErr() Value { return ifaceV{} }

// newError builds an error value of the real *errors.errorString type so that
// interpreted code (Error(), comparisons by identity) behaves as in Go.
func (ex *Exec) newError(msg string, opaque bool) Value {
	var sv Value = structV{strV{s: msg, opaque: opaque}}
	return ifaceV{t: ex.eng.errorStringPtrT, v: Ptr{slot: &sv}}
}

// goString converts a simple engine value to a native Go value for formatting.
func (ex *Exec) nativeArg(v Value) (interface{}, bool) {
	iv, ok := v.(ifaceV)
	if !ok {
		return nil, false
	}
	if iv.t == nil {
		return nil, true
	}
	if n, ok := iv.t.(*types.Named); ok && n.NumMethods() > 0 {
		return nil, false
	}
	if _, ok := iv.t.Underlying().(*types.Basic); !ok {
		return nil, false
	}
	switch x := iv.v.(type) {
	case *Term:
		if !x.IsConst() {
			return nil, false
		}
		if x.w == 0 {
			return x.c == 1, true
		}
		if isSigned(iv.t) {
			return sext(x.c, x.w), true
		}
		return x.c, true
	case strV:
		if x.opaque {
			return nil, false
		}
		return x.s, true
	case floatV:
		return float64(x), true
	}
	return nil, false
}

func (ex *Exec) sprintf(format Value, rest Value) strV {
	f, ok := format.(strV)
	if !ok || f.opaque {
		return strV{opaque: true}
	}
	var nat []interface{}
	if sv, ok := rest.(sliceV); ok {
		for _, a := range sv.arr {
			n, ok := ex.nativeArg(a)
			if !ok {
				// symbolic integers / symbolic strings: structured symbolic result where the format allows
				if r, ok := ex.symSprintf(f.s, sv.arr); ok {
					return r
				}
				return strV{opaque: true}
			}
			nat = append(nat, n)
		}
	}
	if strings.Contains(f.s, "%p") || strings.Contains(f.s, "%T") {
		return strV{opaque: true}
	}
	return strV{s: fmt.Sprintf(f.s, nat...)}
}

func hasStringMethod(t types.Type) bool {
	n, ok := t.(*types.Named)
	return ok && n.NumMethods() > 0
}

func init() {
	intrinsics = map[string]intrinsicFn{}
	I := intrinsics
	// ---- fmt
	I["fmt.Sprintf"] = func(ex *Exec, th *Thread, fn *ssa.Function, a []Value) (Value, bool) {
		return ex.sprintf(a[0], a[1]), false
	}
	I["fmt.Sprint"] = func(ex *Exec, th *Thread, fn *ssa.Function, a []Value) (Value, bool) {
		sv := a[0].(sliceV)
		var nat []interface{}
		for _, x := range sv.arr {
			n, ok := ex.nativeArg(x)
			if !ok {
				return strV{opaque: true}, false
			}
			nat = append(nat, n)
		}
		return strV{s: fmt.Sprint(nat...)}, false
	}
	I["fmt.Errorf"] = func(ex *Exec, th *Thread, fn *ssa.Function, a []Value) (Value, bool) {
		s := ex.sprintf(a[0], a[1])
		f, _ := a[0].(strV)
		if strings.Contains(f.s, "%w") {
			// wrap the first error argument
			if sv, ok := a[1].(sliceV); ok {
				for _, x := range sv.arr {
					if iv, ok := x.(ifaceV); ok && iv.t != nil && ex.implements(iv.t, ex.eng.errorIface) {
						var w Value = structV{strV{s: s.s, opaque: s.opaque}, iv}
						return ifaceV{t: ex.eng.wrapErrorPtrT, v: Ptr{slot: &w}}, false
					}
				}
			}
		}
		return ex.newError(s.s, s.opaque), false
	}
	for _, n := range []string{"fmt.Println", "fmt.Printf", "fmt.Print", "fmt.Fprintf", "fmt.Fprintln", "fmt.Fprint"} {
		I[n] = func(ex *Exec, th *Thread, fn *ssa.Function, a []Value) (Value, bool) {
			return tupleV{ex.mkInt(0), ex.nilErr()}, false
		}
	}
	// ---- strings / strconv on concrete operands
	I["strings.HasPrefix"] = func(ex *Exec, th *Thread, fn *ssa.Function, a []Value) (Value, bool) {
		return ex.tc.Bool(strings.HasPrefix(cstr(a[0]), cstr(a[1]))), false
	}
	I["strings.HasSuffix"] = func(ex *Exec, th *Thread, fn *ssa.Function, a []Value) (Value, bool) {
		return ex.tc.Bool(strings.HasSuffix(cstr(a[0]), cstr(a[1]))), false
	}
	I["strings.Contains"] = func(ex *Exec, th *Thread, fn *ssa.Function, a []Value) (Value, bool) {
		return ex.tc.Bool(strings.Contains(cstr(a[0]), cstr(a[1]))), false
	}
	I["strings.ToLower"] = func(ex *Exec, th *Thread, fn *ssa.Function, a []Value) (Value, bool) {
		if sv, ok := a[0].(strV); ok && sv.ite != nil {
			return strV{ite: &strIte{c: sv.ite.c, a: strings.ToLower(sv.ite.a), b: strings.ToLower(sv.ite.b)}}, false
		}
		if sv, ok := a[0].(strV); ok && sv.sym != nil {
			for _, p := range sv.sym {
				if p.num == nil && strings.ToLower(p.lit) != p.lit {
					panic(unsupported("ToLower of symbolic string with upper-case literal"))
				}
			}
			return sv, false
		}
		return strV{s: strings.ToLower(cstr(a[0]))}, false
	}
	I["strings.ToUpper"] = func(ex *Exec, th *Thread, fn *ssa.Function, a []Value) (Value, bool) {
		if sv, ok := a[0].(strV); ok && sv.ite != nil {
			return strV{ite: &strIte{c: sv.ite.c, a: strings.ToUpper(sv.ite.a), b: strings.ToUpper(sv.ite.b)}}, false
		}
		return strV{s: strings.ToUpper(cstr(a[0]))}, false
	}
	// a two-valued symbolic string (verifIteString) is mapped alternative by alternative
	liftIte := func(v Value, f func(string) string) (Value, bool) {
		if sv, ok := v.(strV); ok && sv.ite != nil {
			na, nb := f(sv.ite.a), f(sv.ite.b)
			if na == nb {
				return strV{s: na}, true
			}
			return strV{ite: &strIte{c: sv.ite.c, a: na, b: nb}}, true
		}
		return nil, false
	}
	I["strings.TrimSpace"] = func(ex *Exec, th *Thread, fn *ssa.Function, a []Value) (Value, bool) {
		if v, ok := liftIte(a[0], strings.TrimSpace); ok {
			return v, false
		}
		return strV{s: strings.TrimSpace(cstr(a[0]))}, false
	}
	I["strings.TrimPrefix"] = func(ex *Exec, th *Thread, fn *ssa.Function, a []Value) (Value, bool) {
		if v, ok := liftIte(a[0], func(x string) string { return strings.TrimPrefix(x, cstr(a[1])) }); ok {
			return v, false
		}
		return strV{s: strings.TrimPrefix(cstr(a[0]), cstr(a[1]))}, false
	}
	I["strings.TrimSuffix"] = func(ex *Exec, th *Thread, fn *ssa.Function, a []Value) (Value, bool) {
		if v, ok := liftIte(a[0], func(x string) string { return strings.TrimSuffix(x, cstr(a[1])) }); ok {
			return v, false
		}
		return strV{s: strings.TrimSuffix(cstr(a[0]), cstr(a[1]))}, false
	}
	I["strings.Index"] = func(ex *Exec, th *Thread, fn *ssa.Function, a []Value) (Value, bool) {
		return ex.mkInt(int64(strings.Index(cstr(a[0]), cstr(a[1])))), false
	}
	I["strings.LastIndex"] = func(ex *Exec, th *Thread, fn *ssa.Function, a []Value) (Value, bool) {
		return ex.mkInt(int64(strings.LastIndex(cstr(a[0]), cstr(a[1])))), false
	}
	I["strings.IndexByte"] = func(ex *Exec, th *Thread, fn *ssa.Function, a []Value) (Value, bool) {
		return ex.mkInt(int64(strings.IndexByte(cstr(a[0]), byte(ex.cint(a[1], "byte"))))), false
	}
	I["strings.EqualFold"] = func(ex *Exec, th *Thread, fn *ssa.Function, a []Value) (Value, bool) {
		return ex.tc.Bool(strings.EqualFold(cstr(a[0]), cstr(a[1]))), false
	}
	I["strings.ReplaceAll"] = func(ex *Exec, th *Thread, fn *ssa.Function, a []Value) (Value, bool) {
		return strV{s: strings.ReplaceAll(cstr(a[0]), cstr(a[1]), cstr(a[2]))}, false
	}
	I["strings.ToValidUTF8"] = func(ex *Exec, th *Thread, fn *ssa.Function, a []Value) (Value, bool) {
		return strV{s: strings.ToValidUTF8(cstr(a[0]), cstr(a[1]))}, false
	}
	I["unicode/utf8.ValidString"] = func(ex *Exec, th *Thread, fn *ssa.Function, a []Value) (Value, bool) {
		return ex.tc.Bool(utf8.ValidString(cstr(a[0]))), false
	}
	I["strings.Split"] = func(ex *Exec, th *Thread, fn *ssa.Function, a []Value) (Value, bool) {
		parts := strings.Split(cstr(a[0]), cstr(a[1]))
		arr := make([]Value, len(parts))
		for i, p := range parts {
			arr[i] = strV{s: p}
		}
		return sliceV{arr: arr}, false
	}
	I["strings.Join"] = func(ex *Exec, th *Thread, fn *ssa.Function, a []Value) (Value, bool) {
		sv := a[0].(sliceV)
		var parts []string
		for _, p := range sv.arr {
			s := p.(strV)
			if s.opaque {
				return strV{opaque: true}, false
			}
			parts = append(parts, s.s)
		}
		sep, ok := a[1].(strV)
		if !ok || sep.opaque {
			return strV{opaque: true}, false
		}
		return strV{s: strings.Join(parts, sep.s)}, false
	}
	I["strconv.Itoa"] = func(ex *Exec, th *Thread, fn *ssa.Function, a []Value) (Value, bool) {
		return ex.symNum(a[0].(*Term), true), false
	}
	I["strconv.FormatInt"] = func(ex *Exec, th *Thread, fn *ssa.Function, a []Value) (Value, bool) {
		t := a[0].(*Term)
		b := a[1].(*Term)
		if !t.IsConst() || !b.IsConst() {
			return strV{opaque: true}, false
		}
		return strV{s: strconv.FormatInt(sext(t.c, t.w), int(b.c))}, false
	}
	I["strconv.FormatBool"] = func(ex *Exec, th *Thread, fn *ssa.Function, a []Value) (Value, bool) {
		t := a[0].(*Term)
		if !t.IsConst() {
			return strV{opaque: true}, false
		}
		return strV{s: strconv.FormatBool(t.c == 1)}, false
	}
	I["strconv.Atoi"] = func(ex *Exec, th *Thread, fn *ssa.Function, a []Value) (Value, bool) {
		if sv, ok := a[0].(strV); ok && len(sv.sym) == 1 && sv.sym[0].num != nil {
			return tupleV{sv.sym[0].num, ex.nilErr()}, false // the decimal rendering of an int64 always parses
		}
		n, err := strconv.Atoi(cstr(a[0]))
		if err != nil {
			return tupleV{ex.mkInt(0), ex.newError(err.Error(), false)}, false
		}
		return tupleV{ex.mkInt(int64(n)), ex.nilErr()}, false
	}
	I["strconv.ParseBool"] = func(ex *Exec, th *Thread, fn *ssa.Function, a []Value) (Value, bool) {
		b, err := strconv.ParseBool(cstr(a[0]))
		if err != nil {
			return tupleV{ex.tc.ff, ex.newError(err.Error(), false)}, false
		}
		return tupleV{ex.tc.Bool(b), ex.nilErr()}, false
	}
	// ---- errors
	I["errors.Is"] = func(ex *Exec, th *Thread, fn *ssa.Function, a []Value) (Value, bool) {
		// an error type with its own Is method (net's timeout error answers true for context.DeadlineExceeded):
		// identity first, then the method decides (tail call); such a type with an Unwrap method too is unsupported
		cur := a[0]
		for depth := 0; depth < 20; depth++ {
			e, ok := cur.(ifaceV)
			if !ok || e.t == nil || e.t == ex.eng.opaqueT {
				break
			}
			if eq := ex.eqVal(cur, a[1]); eq.IsConst() && eq.c == 1 {
				return ex.tc.Bool(true), false
			}
			if types.Identical(e.t, ex.eng.wrapErrorPtrT) {
				p := e.v.(Ptr)
				cur = (*p.slot).(structV)[1]
				continue
			}
			ms := ex.eng.prog.MethodSets.MethodSet(e.t)
			if sel := ms.Lookup(nil, "Is"); sel != nil {
				m := ex.eng.prog.MethodValue(sel)
				if m == nil || m.Blocks == nil || len(m.Params) != 2 {
					break
				}
				if ms.Lookup(nil, "Unwrap") != nil {
					panic(unsupported("errors.Is on an error type with both Is and Unwrap methods"))
				}
				ex.stubsHit["intrinsic:errors.Is=>"+m.String()] = true
				ex.pushFrame(th, m, []Value{e.v, a[1]}, nil, ex.curSite)
				return nil, false
			}
			break
		}
		return ex.tc.Bool(ex.errorsIs(a[0], a[1], 0)), false
	}
	// ---- time
	I["time.Now"] = func(ex *Exec, th *Thread, fn *ssa.Function, a []Value) (Value, bool) {
		return ex.now(), false
	}
	I["time.runtimeNano"] = func(ex *Exec, th *Thread, fn *ssa.Function, a []Value) (Value, bool) {
		return ex.mkInt(ex.clock), false
	}
	I["time.Sleep"] = func(ex *Exec, th *Thread, fn *ssa.Function, a []Value) (Value, bool) {
		if ex.lenient > 0 {
			return nil, false
		}
		if th.id == 0 {
			// the harness thread sleeping is the environment letting time pass
			ex.advance(ex.cint(a[0], "sleep"))
			return nil, false
		}
		// sleep until the next tick: every verifQuiesce / verifAdvance is a tick
		if th.recoverTok {
			th.recoverTok = false
			return nil, false
		}
		th.recoverTok = true
		th.state = tSleeping
		return nil, true
	}
	I["time.NewTicker"] = func(ex *Exec, th *Thread, fn *ssa.Function, a []Value) (Value, bool) {
		d := ex.cint(a[0], "ticker-period")
		ch := &chanObj{id: ex.fresh(), capa: 1, elemT: ex.eng.timeT}
		tk := ex.zero(ex.eng.tickerT).(structV)
		tk[0] = ch
		var v Value = tk
		ex.timers = append(ex.timers, &vtimer{deadline: ex.clock + d, period: d, ch: ch, key: &v})
		return Ptr{slot: &v}, false
	}
	I["(*time.Ticker).Stop"] = func(ex *Exec, th *Thread, fn *ssa.Function, a []Value) (Value, bool) {
		p := a[0].(Ptr)
		for _, t := range ex.timers {
			if t.key == p.slot {
				t.stopped = true
			}
		}
		return nil, false
	}
	I["(*time.Ticker).Reset"] = func(ex *Exec, th *Thread, fn *ssa.Function, a []Value) (Value, bool) {
		p := a[0].(Ptr)
		d := ex.cint(a[1], "ticker-period")
		for _, t := range ex.timers {
			if t.key == p.slot {
				t.stopped = false
				t.period = d
				t.deadline = ex.clock + d
			}
		}
		return nil, false
	}
	I["time.After"] = func(ex *Exec, th *Thread, fn *ssa.Function, a []Value) (Value, bool) {
		d := ex.cint(a[0], "after")
		ch := &chanObj{id: ex.fresh(), capa: 1, elemT: ex.eng.timeT}
		ex.timers = append(ex.timers, &vtimer{deadline: ex.clock + d, ch: ch})
		return ch, false
	}
	I["time.NewTimer"] = func(ex *Exec, th *Thread, fn *ssa.Function, a []Value) (Value, bool) {
		d := ex.cint(a[0], "timer")
		ch := &chanObj{id: ex.fresh(), capa: 1, elemT: ex.eng.timeT}
		tk := ex.zero(ex.eng.timerT).(structV)
		tk[0] = ch
		var v Value = tk
		ex.timers = append(ex.timers, &vtimer{deadline: ex.clock + d, ch: ch, key: &v})
		return Ptr{slot: &v}, false
	}
	I["time.AfterFunc"] = func(ex *Exec, th *Thread, fn *ssa.Function, a []Value) (Value, bool) {
		d := ex.cint(a[0], "afterfunc")
		tk := ex.zero(ex.eng.timerT).(structV)
		var v Value = tk
		ex.timers = append(ex.timers, &vtimer{deadline: ex.clock + d, fn: a[1].(*closure), key: &v})
		return Ptr{slot: &v}, false
	}
	I["(*time.Timer).Stop"] = func(ex *Exec, th *Thread, fn *ssa.Function, a []Value) (Value, bool) {
		p := a[0].(Ptr)
		was := false
		for _, t := range ex.timers {
			if t.key == p.slot {
				was = !t.stopped
				t.stopped = true
			}
		}
		return ex.tc.Bool(was), false
	}
	I["(*time.Timer).Reset"] = func(ex *Exec, th *Thread, fn *ssa.Function, a []Value) (Value, bool) {
		p := a[0].(Ptr)
		d := ex.cint(a[1], "timer")
		was := false
		for _, t := range ex.timers {
			if t.key == p.slot {
				was = !t.stopped
				t.stopped = false
				t.deadline = ex.clock + d
			}
		}
		return ex.tc.Bool(was), false
	}
	I["(time.Time).String"] = func(ex *Exec, th *Thread, fn *ssa.Function, a []Value) (Value, bool) {
		return strV{opaque: true}, false
	}
	I["(time.Time).Format"] = I["(time.Time).String"]
	I["(time.Duration).String"] = I["(time.Time).String"]
	// ---- sync
	I["(*sync.Mutex).Lock"] = func(ex *Exec, th *Thread, fn *ssa.Function, a []Value) (Value, bool) {
		if ex.maybePreempt(th, "lock") {
			return nil, true
		}
		m := ex.mutexOf(a[0].(Ptr))
		if m.locked || m.readers > 0 {
			ex.block(th, "mutex", func() bool { return !m.locked && m.readers == 0 })
			return nil, true
		}
		m.locked = true
		return nil, false
	}
	I["(*sync.Mutex).TryLock"] = func(ex *Exec, th *Thread, fn *ssa.Function, a []Value) (Value, bool) {
		m := ex.mutexOf(a[0].(Ptr))
		if m.locked || m.readers > 0 {
			return ex.tc.ff, false
		}
		m.locked = true
		return ex.tc.tt, false
	}
	I["(*sync.Mutex).Unlock"] = func(ex *Exec, th *Thread, fn *ssa.Function, a []Value) (Value, bool) {
		m := ex.mutexOf(a[0].(Ptr))
		if !m.locked {
			if ex.lenient > 0 {
				return nil, false
			}
			ex.reportViolation("fatal-unlock", "sync: unlock of unlocked mutex")
		}
		m.locked = false
		ex.maybePreempt(th, "after-unlock")
		return nil, false
	}
	I["(*sync.RWMutex).Lock"] = I["(*sync.Mutex).Lock"]
	I["(*sync.RWMutex).Unlock"] = I["(*sync.Mutex).Unlock"]
	// ---- sync.Map: an atomic association list per object (its HashTrieMap internals are not interpreted);
	// every operation is one atomic step, like the atomics. Range/CompareAndSwap are not modelled.
	smOf := func(ex *Exec, fn *ssa.Function, a []Value) *mapObj {
		p, ok := a[0].(Ptr)
		if !ok || p.slot == nil {
			panic(unsupported("sync.Map through nil/symbolic pointer"))
		}
		m, ok := ex.syncMaps[p.slot]
		if !ok {
			var anyT types.Type = types.NewInterfaceType(nil, nil)
			if fn.Signature.Params().Len() > 0 {
				anyT = fn.Signature.Params().At(0).Type()
			}
			m = &mapObj{keyT: anyT, valT: anyT, id: ex.fresh()}
			ex.syncMaps[p.slot] = m
		}
		return m
	}
	I["(*sync.Map).Load"] = func(ex *Exec, th *Thread, fn *ssa.Function, a []Value) (Value, bool) {
		m := smOf(ex, fn, a)
		if i := ex.findEntry(m, a[1], "syncmap-load"); i >= 0 {
			return tupleV{copyVal(m.entries[i].val), ex.tc.tt}, false
		}
		return tupleV{ex.zero(m.valT), ex.tc.ff}, false
	}
	I["(*sync.Map).Store"] = func(ex *Exec, th *Thread, fn *ssa.Function, a []Value) (Value, bool) {
		m := smOf(ex, fn, a)
		ex.mapSet(th, m, a[1], a[2])
		return nil, false
	}
	I["(*sync.Map).LoadOrStore"] = func(ex *Exec, th *Thread, fn *ssa.Function, a []Value) (Value, bool) {
		m := smOf(ex, fn, a)
		if i := ex.findEntry(m, a[1], "syncmap-loadorstore"); i >= 0 {
			return tupleV{copyVal(m.entries[i].val), ex.tc.tt}, false
		}
		m.entries = append(m.entries, &mapEntry{key: copyVal(a[1]), val: copyVal(a[2]), present: ex.tc.tt})
		return tupleV{copyVal(a[2]), ex.tc.ff}, false
	}
	I["(*sync.Map).LoadAndDelete"] = func(ex *Exec, th *Thread, fn *ssa.Function, a []Value) (Value, bool) {
		m := smOf(ex, fn, a)
		if i := ex.findEntry(m, a[1], "syncmap-loadanddelete"); i >= 0 {
			v := m.entries[i].val
			m.entries = append(m.entries[:i:i], m.entries[i+1:]...)
			return tupleV{copyVal(v), ex.tc.tt}, false
		}
		return tupleV{ex.zero(m.valT), ex.tc.ff}, false
	}
	I["(*sync.Map).Delete"] = func(ex *Exec, th *Thread, fn *ssa.Function, a []Value) (Value, bool) {
		ex.mapDelete(smOf(ex, fn, a), a[1])
		return nil, false
	}
	I["(*sync.Map).Swap"] = func(ex *Exec, th *Thread, fn *ssa.Function, a []Value) (Value, bool) {
		m := smOf(ex, fn, a)
		if i := ex.findEntry(m, a[1], "syncmap-swap"); i >= 0 {
			old := m.entries[i].val
			m.entries[i].val = copyVal(a[2])
			return tupleV{copyVal(old), ex.tc.tt}, false
		}
		m.entries = append(m.entries, &mapEntry{key: copyVal(a[1]), val: copyVal(a[2]), present: ex.tc.tt})
		return tupleV{ex.zero(m.valT), ex.tc.ff}, false
	}
	I["(*sync.Map).Clear"] = func(ex *Exec, th *Thread, fn *ssa.Function, a []Value) (Value, bool) {
		smOf(ex, fn, a).entries = nil
		return nil, false
	}
	I["(*sync.RWMutex).TryLock"] = I["(*sync.Mutex).TryLock"]
	I["(*sync.RWMutex).RLock"] = func(ex *Exec, th *Thread, fn *ssa.Function, a []Value) (Value, bool) {
		if ex.maybePreempt(th, "rlock") {
			return nil, true
		}
		m := ex.mutexOf(a[0].(Ptr))
		if m.locked {
			ex.block(th, "rwmutex(read)", func() bool { return !m.locked })
			return nil, true
		}
		m.readers++
		return nil, false
	}
	I["(*sync.RWMutex).RUnlock"] = func(ex *Exec, th *Thread, fn *ssa.Function, a []Value) (Value, bool) {
		m := ex.mutexOf(a[0].(Ptr))
		if m.readers <= 0 {
			if ex.lenient > 0 {
				return nil, false
			}
			ex.reportViolation("fatal-unlock", "sync: RUnlock of unlocked RWMutex")
		}
		m.readers--
		ex.maybePreempt(th, "after-runlock")
		return nil, false
	}
	I["(*sync.WaitGroup).Add"] = func(ex *Exec, th *Thread, fn *ssa.Function, a []Value) (Value, bool) {
		w := ex.wgOf(a[0].(Ptr))
		w.n += ex.cint(a[1], "wg-delta")
		if w.n < 0 {
			ex.goPanic(th, ifaceV{t: ex.eng.runtimeErrT, v: strV{s: "sync: negative WaitGroup counter"}}, "sync: negative WaitGroup counter")
		}
		return nil, false
	}
	I["(*sync.WaitGroup).Done"] = func(ex *Exec, th *Thread, fn *ssa.Function, a []Value) (Value, bool) {
		w := ex.wgOf(a[0].(Ptr))
		w.n--
		if w.n < 0 {
			ex.goPanic(th, ifaceV{t: ex.eng.runtimeErrT, v: strV{s: "sync: negative WaitGroup counter"}}, "sync: negative WaitGroup counter")
		}
		return nil, false
	}
	I["(*sync.WaitGroup).Wait"] = func(ex *Exec, th *Thread, fn *ssa.Function, a []Value) (Value, bool) {
		w := ex.wgOf(a[0].(Ptr))
		if w.n > 0 {
			ex.block(th, "waitgroup", func() bool { return w.n == 0 })
			return nil, true
		}
		return nil, false
	}
	// ---- sync/atomic (functions; the typed wrappers are interpreted)
	for _, ty := range []string{"Int32", "Int64", "Uint32", "Uint64", "Uintptr", "Pointer"} {
		I["sync/atomic.Load"+ty] = func(ex *Exec, th *Thread, fn *ssa.Function, a []Value) (Value, bool) {
			v, _ := ex.loadPtr(th, a[0].(Ptr))
			return v, false
		}
		I["sync/atomic.Store"+ty] = func(ex *Exec, th *Thread, fn *ssa.Function, a []Value) (Value, bool) {
			ex.storePtr(th, a[0].(Ptr), a[1])
			return nil, false
		}
		I["sync/atomic.Swap"+ty] = func(ex *Exec, th *Thread, fn *ssa.Function, a []Value) (Value, bool) {
			v, ok := ex.loadPtr(th, a[0].(Ptr))
			if ok {
				ex.storePtr(th, a[0].(Ptr), a[1])
			}
			return v, false
		}
		I["sync/atomic.CompareAndSwap"+ty] = func(ex *Exec, th *Thread, fn *ssa.Function, a []Value) (Value, bool) {
			v, ok := ex.loadPtr(th, a[0].(Ptr))
			if !ok {
				return nil, false
			}
			eq := ex.eqVal(v, a[1])
			if ex.branch(eq, "cas") {
				ex.storePtr(th, a[0].(Ptr), a[2])
				return ex.tc.tt, false
			}
			return ex.tc.ff, false
		}
		if ty != "Pointer" {
			I["sync/atomic.Add"+ty] = func(ex *Exec, th *Thread, fn *ssa.Function, a []Value) (Value, bool) {
				v, ok := ex.loadPtr(th, a[0].(Ptr))
				if !ok {
					return nil, false
				}
				n := ex.tc.Bin(OpAdd, v.(*Term), a[1].(*Term))
				ex.storePtr(th, a[0].(Ptr), n)
				return n, false
			}
		}
	}
	I["(*sync/atomic.Value).Load"] = func(ex *Exec, th *Thread, fn *ssa.Function, a []Value) (Value, bool) {
		p := a[0].(Ptr)
		return (*p.slot).(structV)[0], false
	}
	I["(*sync/atomic.Value).Store"] = func(ex *Exec, th *Thread, fn *ssa.Function, a []Value) (Value, bool) {
		p := a[0].(Ptr)
		(*p.slot).(structV)[0] = a[1]
		return nil, false
	}
	I["(*sync/atomic.Value).Swap"] = func(ex *Exec, th *Thread, fn *ssa.Function, a []Value) (Value, bool) {
		p := a[0].(Ptr)
		old := (*p.slot).(structV)[0]
		(*p.slot).(structV)[0] = a[1]
		return old, false
	}
	I["(*sync/atomic.Value).CompareAndSwap"] = func(ex *Exec, th *Thread, fn *ssa.Function, a []Value) (Value, bool) {
		p := a[0].(Ptr)
		old := (*p.slot).(structV)[0]
		if ex.branch(ex.eqVal(old, a[1]), "cas") {
			(*p.slot).(structV)[0] = a[2]
			return ex.tc.tt, false
		}
		return ex.tc.ff, false
	}
	// ---- context.WithValue: skip the reflectlite comparability check, build the real *valueCtx
	I["context.WithValue"] = func(ex *Exec, th *Thread, fn *ssa.Function, a []Value) (Value, bool) {
		parent, _ := a[0].(ifaceV)
		if parent.t == nil {
			ex.goPanic(th, ifaceV{t: ex.eng.runtimeErrT, v: strV{s: "cannot create context from nil parent"}}, "panic: cannot create context from nil parent")
			return nil, false
		}
		var v Value = structV{a[0], a[1], a[2]}
		return ifaceV{t: ex.eng.valueCtxPtrT, v: Ptr{slot: &v}}, false
	}
	// ---- internal/bytealg (assembly) on concrete operands
	I["internal/bytealg.IndexByteString"] = func(ex *Exec, th *Thread, fn *ssa.Function, a []Value) (Value, bool) {
		return ex.mkInt(int64(strings.IndexByte(cstr(a[0]), byte(ex.cint(a[1], "byte"))))), false
	}
	I["internal/bytealg.LastIndexByteString"] = func(ex *Exec, th *Thread, fn *ssa.Function, a []Value) (Value, bool) {
		return ex.mkInt(int64(strings.LastIndexByte(cstr(a[0]), byte(ex.cint(a[1], "byte"))))), false
	}
	I["internal/bytealg.CountString"] = func(ex *Exec, th *Thread, fn *ssa.Function, a []Value) (Value, bool) {
		return ex.mkInt(int64(strings.Count(cstr(a[0]), string([]byte{byte(ex.cint(a[1], "byte"))})))), false
	}
	I["internal/bytealg.IndexString"] = func(ex *Exec, th *Thread, fn *ssa.Function, a []Value) (Value, bool) {
		return ex.mkInt(int64(strings.Index(cstr(a[0]), cstr(a[1])))), false
	}
	I["internal/bytealg.IndexByte"] = func(ex *Exec, th *Thread, fn *ssa.Function, a []Value) (Value, bool) {
		sv := a[0].(sliceV)
		c := byte(ex.cint(a[1], "byte"))
		for i, e := range sv.arr {
			if byte(ex.cint(e, "byte")) == c {
				return ex.mkInt(int64(i)), false
			}
		}
		return ex.mkInt(-1), false
	}
	// ---- log.CapturePanic (deferred): recover a panic into *retError (the log package is otherwise a no-op)
	I["go.temporal.io/server/common/log.CapturePanic"] = func(ex *Exec, th *Thread, fn *ssa.Function, a []Value) (Value, bool) {
		if th.panicking && len(th.frames) > 0 && th.frames[len(th.frames)-1].unwinding {
			th.panicking = false
			th.panicVal = nil
			if p, ok := a[1].(Ptr); ok && p.slot != nil {
				storeSlot(p.slot, ex.newError("panic captured: "+th.panicMsg, false))
			}
			ex.stubsHit["panic-captured"] = true
		}
		return nil, false
	}
	// ---- maps.clone (runtime linkname): shallow copy
	I["maps.clone"] = func(ex *Exec, th *Thread, fn *ssa.Function, a []Value) (Value, bool) {
		iv, _ := a[0].(ifaceV)
		m, _ := iv.v.(*mapObj)
		if m == nil {
			return a[0], false
		}
		n := &mapObj{keyT: m.keyT, valT: m.valT, id: ex.fresh()}
		for _, e := range m.entries {
			n.entries = append(n.entries, &mapEntry{key: e.key, val: copyVal(e.val), present: e.present})
		}
		return ifaceV{t: iv.t, v: n}, false
	}
	// ---- runtime bits that interpreted std code touches
	I["runtime.Gosched"] = func(ex *Exec, th *Thread, fn *ssa.Function, a []Value) (Value, bool) { return nil, false }
	I["runtime.KeepAlive"] = I["runtime.Gosched"]
	I["(*strings.Builder).copyCheck"] = I["runtime.Gosched"] // self-pointer bookkeeping through uintptr tricks; copying a Builder is not modelled
	// (*strings.Builder).String: unsafe.String over the buffer; here the buffer's (concrete) bytes, else an opaque string
	I["(*strings.Builder).String"] = func(ex *Exec, th *Thread, fn *ssa.Function, a []Value) (Value, bool) {
		p, ok := a[0].(Ptr)
		if !ok || p.slot == nil {
			return strV{opaque: true}, false
		}
		sv, ok := (*p.slot).(structV)
		if !ok || len(sv) < 2 {
			return strV{opaque: true}, false
		}
		buf, ok := sv[1].(sliceV)
		if !ok || buf.abs != nil {
			return strV{opaque: true}, false
		}
		out := make([]byte, 0, len(buf.arr))
		for _, e := range buf.arr {
			t, ok := e.(*Term)
			if !ok || !t.IsConst() {
				return strV{opaque: true}, false
			}
			out = append(out, byte(t.c))
		}
		return strV{s: string(out)}, false
	}
	// reflect, minimal: a reflect.Value made by ValueOf is a box around the interface value (kept in the
	// struct's pointer slot); Interface() unboxes it. Nothing else of reflect is modelled.
	I["reflect.ValueOf"] = func(ex *Exec, th *Thread, fn *ssa.Function, a []Value) (Value, bool) {
		return structV{a[0], a[0], ex.mkInt(1)}, false
	}
	I["(reflect.Value).Interface"] = func(ex *Exec, th *Thread, fn *ssa.Function, a []Value) (Value, bool) {
		if sv, ok := a[0].(structV); ok && len(sv) == 3 {
			if iv, ok := sv[1].(ifaceV); ok {
				return iv, false
			}
		}
		panic(unsupported("reflect.Value.Interface on a value not made by reflect.ValueOf"))
	}
	_ = 0
	I["runtime.SetFinalizer"] = I["runtime.Gosched"]
	I["internal/race.Enable"] = I["runtime.Gosched"]
	I["internal/race.Disable"] = I["runtime.Gosched"]
	I["internal/race.Acquire"] = I["runtime.Gosched"]
	I["internal/race.Release"] = I["runtime.Gosched"]
	I["internal/race.ReleaseMerge"] = I["runtime.Gosched"]
	I["internal/race.Read"] = I["runtime.Gosched"]
	I["internal/race.Write"] = I["runtime.Gosched"]
	// ---- gRPC status errors: record the code, message opaque
	statusErr := func(ex *Exec, code Value) Value {
		c := int(ex.cint(code, "status-code"))
		if c == 0 {
			return ex.nilErr()
		}
		e := ex.newError("rpc error", true)
		ex.errCodes[e.(ifaceV).v.(Ptr).slot] = c
		return e
	}
	for _, pk := range []string{"github.com/gogo/status", "google.golang.org/grpc/status"} {
		I[pk+".Errorf"] = func(ex *Exec, th *Thread, fn *ssa.Function, a []Value) (Value, bool) { return statusErr(ex, a[0]), false }
		I[pk+".Error"] = func(ex *Exec, th *Thread, fn *ssa.Function, a []Value) (Value, bool) { return statusErr(ex, a[0]), false }
		I[pk+".Code"] = func(ex *Exec, th *Thread, fn *ssa.Function, a []Value) (Value, bool) {
			iv, _ := a[0].(ifaceV)
			if iv.t == nil {
				return ex.tc.Const(32, 0), false
			}
			if p, ok := iv.v.(Ptr); ok && p.slot != nil {
				if c, ok := ex.errCodes[p.slot]; ok {
					return ex.tc.Const(32, uint64(c)), false
				}
			}
			return ex.tc.Const(32, 2), false
		}
	}
	// ---- proto.Clone: deep copy of the object graph
	I["google.golang.org/protobuf/proto.Clone"] = func(ex *Exec, th *Thread, fn *ssa.Function, a []Value) (Value, bool) {
		return ex.deepCopy(a[0], map[*Value]*Value{}), false
	}
	// ---- slices.Grow on abstract slices (concrete slices are interpreted)
	I["slices.Grow"] = func(ex *Exec, th *Thread, fn *ssa.Function, a []Value) (Value, bool) {
		sv := a[0].(sliceV)
		if sv.abs == nil {
			ex.pushFrame(th, fn, a, nil, ex.curSite)
			return nil, false
		}
		n := a[1].(*Term)
		if ex.branch(ex.tc.Bin(OpSLt, n, ex.tc.Const(64, 0)), "grow-negative") {
			ex.goPanic(th, ifaceV{t: ex.eng.runtimeErrT, v: strV{s: "cannot be negative"}}, "panic: cannot be negative")
			return nil, false
		}
		need := ex.tc.Bin(OpAdd, sv.abs.length, n)
		newCap := ex.tc.Ite(ex.tc.Bin(OpSLt, sv.abs.capa, need), need, sv.abs.capa)
		return sliceV{abs: &absSlice{length: sv.abs.length, capa: newCap, elemT: sv.abs.elemT}}, false
	}
	// ---- Temporal's workflow -> shard hash: its only contract is "some shard in 1..n, fixed per
	// (namespace id, workflow id)"; the shard is a case split, memoised per id.
	I["go.temporal.io/server/common.WorkflowIDToHistoryShard"] = func(ex *Exec, th *Thread, fn *ssa.Function, a []Value) (Value, bool) {
		n := int(ex.cint(a[2], "shardcount"))
		if n <= 0 {
			ex.runtimePanic(th, "integer divide by zero")
			return nil, false
		}
		key := fmt.Sprintf("%s_%s:%d", cstr(a[0]), cstr(a[1]), n)
		if v, ok := ex.wfShard[key]; ok {
			return ex.tc.Const(32, uint64(v)), false
		}
		alt := 0
		if n > 1 {
			alt = ex.decide("wfshard:"+key, n, nil, false)
		}
		ex.wfShard[key] = alt + 1
		return ex.tc.Const(32, uint64(alt+1)), false
	}
	// ---- farm hash: uninterpreted per distinct concrete input
	I["github.com/dgryski/go-farm.Fingerprint32"] = func(ex *Exec, th *Thread, fn *ssa.Function, a []Value) (Value, bool) {
		sv := a[0].(sliceV)
		bs := make([]byte, len(sv.arr))
		for i, e := range sv.arr {
			bs[i] = byte(e.(*Term).c)
		}
		key := string(bs)
		if t, ok := ex.hashSyms[key]; ok {
			return t, false
		}
		t := ex.newSym("farm32:"+key, 32)
		ex.hashSyms[key] = t
		return t, false
	}
}

// deepCopy clones everything reachable through pointers (object graph copy).
func (ex *Exec) deepCopy(v Value, seen map[*Value]*Value) Value {
	switch x := v.(type) {
	case structV:
		n := make(structV, len(x))
		for i, f := range x {
			n[i] = ex.deepCopy(f, seen)
		}
		return n
	case arrayV:
		n := make(arrayV, len(x))
		for i, f := range x {
			n[i] = ex.deepCopy(f, seen)
		}
		return n
	case sliceV:
		if x.isNil || x.abs != nil {
			return x
		}
		arr := make([]Value, len(x.arr))
		for i, f := range x.arr {
			arr[i] = ex.deepCopy(f, seen)
		}
		return sliceV{arr: arr}
	case Ptr:
		if x.slot == nil {
			return x
		}
		if n, ok := seen[x.slot]; ok {
			return Ptr{slot: n}
		}
		var nv Value
		seen[x.slot] = &nv
		nv = ex.deepCopy(*x.slot, seen)
		return Ptr{slot: &nv}
	case ifaceV:
		return ifaceV{t: x.t, v: ex.deepCopy(x.v, seen)}
	case *mapObj:
		if x == nil {
			return x
		}
		n := &mapObj{keyT: x.keyT, valT: x.valT, id: ex.fresh()}
		for _, e := range x.entries {
			n.entries = append(n.entries, &mapEntry{key: ex.deepCopy(e.key, seen), val: ex.deepCopy(e.val, seen), present: e.present})
		}
		return n
	}
	return v
}

func (ex *Exec) errorsIs(err, target Value, depth int) bool {
	if depth > 20 {
		return false
	}
	e, ok := err.(ifaceV)
	if !ok || e.t == nil {
		t, _ := target.(ifaceV)
		return t.t == nil && (!ok || e.t == nil)
	}
	if e.t == ex.eng.opaqueT {
		panic(unsupported("errors.Is on opaque error"))
	}
	eq := ex.eqVal(err, target)
	if eq.IsConst() && eq.c == 1 {
		return true
	}
	// unwrap *fmt.wrapError
	if types.Identical(e.t, ex.eng.wrapErrorPtrT) {
		p := e.v.(Ptr)
		return ex.errorsIs((*p.slot).(structV)[1], target, depth+1)
	}
	return false
}

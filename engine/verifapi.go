package main

import (
	"fmt"
	"go/types"
	_ "strings"

	"golang.org/x/tools/go/ssa"
)

func (ex *Exec) assertTerm(c *Term, label string) {
	ex.asserts++
	if c.IsConst() && c.c == 1 {
		return
	}
	neg := ex.tc.Not(c)
	ex.flushPC()
	var r SatResult
	if neg.IsConst() {
		r = ex.sol.Check(ex.tc, nil, false)
		if r == Sat {
			ex.sol.Check(ex.tc, ex.tc.tt, true)
		}
	} else {
		r = ex.sol.Check(ex.tc, neg, true)
	}
	switch r {
	case Unsat:
		if !neg.IsConst() {
			ex.sol.PopScope()
		}
		if s2 := ex.w.sol2; s2 != nil && !neg.IsConst() {
			// re-ask the second solver from scratch: whole path condition + negated assertion
			s2.Reset()
			for _, t := range ex.pc {
				s2.Assert(ex.tc, t)
			}
			if r2 := s2.Check(ex.tc, neg, false); r2 != Unsat {
				ex.unknowns++
				panic(pathEnd{kind: "unsupported", msg: "second solver does not confirm unsat (" + r2.String() + ") on assertion " + label})
			}
		}
		return
	case Unknown:
		if !neg.IsConst() {
			ex.sol.PopScope()
		}
		// one more attempt with the other z3 and a longer limit; only "unsat" settles it
		if rs := ex.w.retrySolver(); rs != nil && !neg.IsConst() {
			rs.Reset()
			for _, t := range ex.pc {
				rs.Assert(ex.tc, t)
			}
			if rs.Check(ex.tc, neg, false) == Unsat {
				ex.stubsHit["solver-retry:unknown-settled-by-second-attempt"] = true
				return
			}
		}
		ex.unknowns++
		panic(pathEnd{kind: "unsupported", msg: "solver unknown on assertion " + label})
	}
	// sat: extract the counterexample
	v := &Violation{Label: label, Msg: "assertion failed"}
	ex.fillModel(v)
	ex.sol.PopScope()
	ex.violation = v
	panic(pathEnd{kind: "violation", msg: label})
}

// fillModel reads the current model (a sat scope must be open).
func (ex *Exec) fillModel(v *Violation) {
	var ts []*Term
	for _, n := range ex.nondets {
		ts = append(ts, n.T)
	}
	vals := ex.sol.Values(ex.tc, ts)
	for _, n := range ex.nondets {
		v.Nondets = append(v.Nondets, NondetVal{Label: n.Label, Val: vals[n.T.id], W: n.T.w})
	}
	v.Threads = ex.threadDump()
	v.Decisions = append([]Decision{}, ex.decisions...)
	v.Actions = append([]string{}, ex.actions...)
	m := map[string]uint64{}
	for _, n := range ex.nondets {
		m[n.T.name] = vals[n.T.id]
	}
	v.Observes = ex.renderObserves(m)
}

func (ex *Exec) threadDump() []string {
	var out []string
	for _, t := range ex.threads {
		st := [...]string{"runnable", "blocked", "sleeping", "done"}[t.state]
		if t.state == tDone {
			continue
		}
		where := ""
		for i := len(t.frames) - 1; i >= 0 && i >= len(t.frames)-4; i-- {
			fr := t.frames[i]
			pos := ""
			if fr.pc < len(fr.block.Instrs) {
				p := ex.eng.prog.Fset.Position(fr.block.Instrs[fr.pc].Pos())
				if p.IsValid() {
					pos = fmt.Sprintf(":%d", p.Line)
				}
			}
			where += " < " + fr.fn.String() + pos
		}
		out = append(out, fmt.Sprintf("T%d %s(%s)%s", t.id, st, t.waitWhat, where))
	}
	return out
}

// violationNoAssert is used for violations that are not assertion failures
// (deadlock, unrecovered panic): the path condition itself is the witness.
func (ex *Exec) finishViolation() {
	v := ex.violation
	if v == nil || v.Nondets != nil || v.Decisions != nil {
		return
	}
	ex.flushPC()
	r := ex.sol.Check(ex.tc, ex.tc.tt, true)
	if r == Sat {
		ex.fillModel(v)
		ex.sol.PopScope()
		return
	}
	ex.sol.PopScope()
	if r == Unsat {
		ex.violation = nil // infeasible path
		return
	}
	ex.unknowns++
}

func init() {
	verifAPI = map[string]intrinsicFn{}
	V := verifAPI
	nondet := func(w int) intrinsicFn {
		return func(ex *Exec, th *Thread, fn *ssa.Function, a []Value) (Value, bool) {
			return ex.newSym(cstr(a[0]), w), false
		}
	}
	V["verifNondetInt64"] = nondet(64)
	V["verifNondetInt"] = nondet(64)
	V["verifNondetInt32"] = nondet(32)
	V["verifNondetUint32"] = nondet(32)
	V["verifNondetUint64"] = nondet(64)
	V["verifNondetUint8"] = nondet(8)
	V["verifNondetBool"] = nondet(0)
	V["verifChoose"] = func(ex *Exec, th *Thread, fn *ssa.Function, a []Value) (Value, bool) {
		n := int(ex.cint(a[1], "choose-n"))
		if n <= 0 {
			panic(pathEnd{kind: "assume"})
		}
		alt := 0
		if n > 1 {
			alt = ex.decide("choose:"+cstr(a[0]), n, nil, false)
		}
		return ex.mkInt(int64(alt)), false
	}
	V["verifAssume"] = func(ex *Exec, th *Thread, fn *ssa.Function, a []Value) (Value, bool) {
		c := a[0].(*Term)
		if c.IsConst() {
			if c.c == 0 {
				panic(pathEnd{kind: "assume"})
			}
			return nil, false
		}
		ex.addPC(c)
		return nil, false
	}
	V["verifAssert"] = func(ex *Exec, th *Thread, fn *ssa.Function, a []Value) (Value, bool) {
		ex.assertTerm(a[0].(*Term), cstr(a[1]))
		return nil, false
	}
	V["verifFail"] = func(ex *Exec, th *Thread, fn *ssa.Function, a []Value) (Value, bool) {
		ex.assertTerm(ex.tc.ff, cstr(a[0]))
		return nil, false
	}
	V["verifReach"] = func(ex *Exec, th *Thread, fn *ssa.Function, a []Value) (Value, bool) {
		l := cstr(a[0])
		if !ex.reached[l] {
			if ex.w.eng.reachKnown(l) {
				ex.reached[l] = true // already witnessed on another path
			} else if ex.check(nil) == Sat {
				ex.reached[l] = true
			}
		}
		return nil, false
	}
	V["verifReachIf"] = func(ex *Exec, th *Thread, fn *ssa.Function, a []Value) (Value, bool) {
		l := cstr(a[1])
		c := a[0].(*Term)
		if !ex.reached[l] && !ex.w.eng.reachKnown(l) {
			if !(c.IsConst() && c.c == 0) && ex.check(c) == Sat {
				ex.reached[l] = true
			}
		}
		return nil, false
	}
	V["verifAction"] = func(ex *Exec, th *Thread, fn *ssa.Function, a []Value) (Value, bool) {
		ex.actions = append(ex.actions, cstr(a[0]))
		return nil, false
	}
	V["verifObserve"] = func(ex *Exec, th *Thread, fn *ssa.Function, a []Value) (Value, bool) {
		rec := obsRec{label: cstr(a[0])}
		if sv, ok := a[1].(sliceV); ok {
			for _, x := range sv.arr {
				iv, _ := x.(ifaceV)
				switch t := iv.v.(type) {
				case *Term:
					if t.w > 0 && !isSigned(iv.t) {
						// render unsigned values as such
						t = ex.tc.Resize(t, 64, false)
					}
					rec.vals = append(rec.vals, t)
				case strV:
					if t.opaque || t.ite != nil {
						rec.vals = append(rec.vals, "?")
					} else {
						rec.vals = append(rec.vals, t.s)
					}
				default:
					rec.vals = append(rec.vals, "?")
				}
			}
		}
		ex.observes = append(ex.observes, rec)
		return nil, false
	}
	V["verifAnd"] = func(ex *Exec, th *Thread, fn *ssa.Function, a []Value) (Value, bool) {
		return ex.tc.And(a[0].(*Term), a[1].(*Term)), false
	}
	V["verifOr"] = func(ex *Exec, th *Thread, fn *ssa.Function, a []Value) (Value, bool) {
		return ex.tc.Or(a[0].(*Term), a[1].(*Term)), false
	}
	V["verifNot"] = func(ex *Exec, th *Thread, fn *ssa.Function, a []Value) (Value, bool) {
		return ex.tc.Not(a[0].(*Term)), false
	}
	V["verifImplies"] = func(ex *Exec, th *Thread, fn *ssa.Function, a []Value) (Value, bool) {
		return ex.tc.Implies(a[0].(*Term), a[1].(*Term)), false
	}
	V["verifIte64"] = func(ex *Exec, th *Thread, fn *ssa.Function, a []Value) (Value, bool) {
		return ex.tc.Ite(a[0].(*Term), a[1].(*Term), a[2].(*Term)), false
	}
	V["verifIte32"] = V["verifIte64"]
	V["verifIteInt"] = V["verifIte64"]
	V["verifIteBool"] = V["verifIte64"]
	V["verifQuiesce"] = func(ex *Exec, th *Thread, fn *ssa.Function, a []Value) (Value, bool) {
		if th.id != 0 {
			panic(unsupported("verifQuiesce outside harness thread"))
		}
		if th.recoverTok {
			th.recoverTok = false
			return nil, false
		}
		th.recoverTok = true
		ex.wakeSleepers()
		th.inQuiesce = true
		th.state = tBlocked
		th.waitFn = func() bool { return false }
		th.waitWhat = "quiesce"
		return nil, true
	}
	V["verifAdvance"] = func(ex *Exec, th *Thread, fn *ssa.Function, a []Value) (Value, bool) {
		ex.advance(ex.cint(a[0], "advance"))
		return nil, false
	}
	V["verifLiveThreads"] = func(ex *Exec, th *Thread, fn *ssa.Function, a []Value) (Value, bool) {
		n := 0
		for _, t := range ex.threads {
			if t.id != 0 && t.state != tDone {
				n++
			}
		}
		return ex.mkInt(int64(n)), false
	}
	V["verifConfig"] = func(ex *Exec, th *Thread, fn *ssa.Function, a []Value) (Value, bool) {
		k := cstr(a[0])
		v := ex.cint(a[1], "config")
		switch k {
		case "preempt":
			ex.preempt = int(v)
		case "maporder":
			ex.mapOrder = int(v)
		case "chanscale":
			ex.chanScale = int(v)
		case "maxvisits":
			ex.maxVisits = int(v)
		default:
			panic(unsupported("verifConfig key " + k))
		}
		ex.cfg[k] = v
		return nil, false
	}
	V["verifParam"] = func(ex *Exec, th *Thread, fn *ssa.Function, a []Value) (Value, bool) {
		k := cstr(a[0])
		if v, ok := ex.eng.params[k]; ok {
			return ex.mkInt(v), false
		}
		return a[1], false
	}
	V["verifEngine"] = func(ex *Exec, th *Thread, fn *ssa.Function, a []Value) (Value, bool) {
		return ex.tc.tt, false
	}
	V["verifMutexHeld"] = func(ex *Exec, th *Thread, fn *ssa.Function, a []Value) (Value, bool) {
		p, ok := a[0].(Ptr)
		if !ok {
			// interface{} argument
			p = a[0].(ifaceV).v.(Ptr)
		}
		m := ex.mutexOf(p)
		return ex.tc.Bool(m.locked || m.readers > 0), false
	}
	V["verifAbstractInt32Slice"] = func(ex *Exec, th *Thread, fn *ssa.Function, a []Value) (Value, bool) {
		ln := a[0].(*Term)
		return sliceV{abs: &absSlice{length: ln, capa: ln, elemT: types.Typ[types.Int32]}}, false
	}
	V["verifAbstractSlice"] = func(ex *Exec, th *Thread, fn *ssa.Function, a []Value) (Value, bool) {
		ln := a[0].(*Term)
		capa := ln
		if len(a) > 1 { // optional second argument: the capacity (assumed >= length by the harness)
			capa = a[1].(*Term)
		}
		et := fn.Signature.Results().At(0).Type().Underlying().(*types.Slice).Elem()
		return sliceV{abs: &absSlice{length: ln, capa: capa, elemT: et}}, false
	}
	V["verifNumString"] = func(ex *Exec, th *Thread, fn *ssa.Function, a []Value) (Value, bool) {
		return ex.symNum(a[0].(*Term), true), false
	}
	V["verifIteString"] = func(ex *Exec, th *Thread, fn *ssa.Function, a []Value) (Value, bool) {
		c := a[0].(*Term)
		if c.IsConst() {
			if c.c == 1 {
				return a[1], false
			}
			return a[2], false
		}
		return strV{ite: &strIte{c: c, a: cstr(a[1]), b: cstr(a[2])}}, false
	}
	V["verifFuncName"] = func(ex *Exec, th *Thread, fn *ssa.Function, a []Value) (Value, bool) {
		iv, _ := a[0].(ifaceV)
		cl, ok := iv.v.(*closure)
		if !ok || cl == nil {
			return strV{}, false
		}
		if cl.fn != nil {
			return strV{s: cl.fn.String()}, false
		}
		return strV{s: "opaque:" + cl.intr}, false
	}
	V["verifMethodsOf"] = func(ex *Exec, th *Thread, fn *ssa.Function, a []Value) (Value, bool) {
		iv := a[0].(ifaceV)
		pt, ok := iv.t.(*types.Pointer)
		if !ok {
			panic(unsupported("verifMethodsOf wants a nil pointer to an interface type"))
		}
		it, ok := pt.Elem().Underlying().(*types.Interface)
		if !ok {
			panic(unsupported("verifMethodsOf wants a nil pointer to an interface type"))
		}
		var arr []Value
		for i := 0; i < it.NumMethods(); i++ {
			m := it.Method(i)
			if m.Exported() {
				arr = append(arr, strV{s: m.Name()})
			}
		}
		return sliceV{arr: arr}, false
	}
	V["verifSameObject"] = func(ex *Exec, th *Thread, fn *ssa.Function, a []Value) (Value, bool) {
		x, y := a[0].(ifaceV), a[1].(ifaceV)
		px, ok1 := x.v.(Ptr)
		py, ok2 := y.v.(Ptr)
		return ex.tc.Bool(ok1 && ok2 && px.slot == py.slot), false
	}
	V["verifSnapshot"] = func(ex *Exec, th *Thread, fn *ssa.Function, a []Value) (Value, bool) {
		ex.tracked[cstr(a[0])] = ex.deepCopy(a[1], map[*Value]*Value{})
		return nil, false
	}
	V["verifUnchangedExcept"] = func(ex *Exec, th *Thread, fn *ssa.Function, a []Value) (Value, bool) {
		snap, ok := ex.tracked[cstr(a[0])]
		if !ok {
			panic(unsupported("verifUnchangedExcept without snapshot"))
		}
		var allowed []string
		if sv, ok := a[2].(sliceV); ok {
			for _, x := range sv.arr {
				allowed = append(allowed, cstr(x))
			}
		}
		return ex.sameGraph(snap, a[1], "", allowed, map[[2]*Value]bool{}), false
	}
	V["verifWorkflowID"] = func(ex *Exec, th *Thread, fn *ssa.Function, a []Value) (Value, bool) {
		k := ex.cint(a[0], "wfid")
		return strV{s: fmt.Sprintf("wf-%d", k)}, false
	}
	V["verifIdentity"] = func(ex *Exec, th *Thread, fn *ssa.Function, a []Value) (Value, bool) {
		cls := ex.cint(a[0], "cls")
		return tupleV{strV{s: fmt.Sprintf("ns%d", cls/2)}, strV{s: fmt.Sprintf("wf%d", cls%2)}}, false
	}
	V["verifWorkflowIDForShard"] = func(ex *Exec, th *Thread, fn *ssa.Function, a []Value) (Value, bool) {
		k := ex.cint(a[0], "wfid")
		shard := int(ex.cint(a[1], "shard"))
		n := ex.cint(a[2], "n")
		id := fmt.Sprintf("wf-%d", k)
		ex.wfShard[fmt.Sprintf("ns_%s:%d", id, n)] = shard
		return strV{s: id}, false
	}
	V["verifStatusCode"] = func(ex *Exec, th *Thread, fn *ssa.Function, a []Value) (Value, bool) {
		iv, _ := a[0].(ifaceV)
		if iv.t == nil {
			return ex.mkInt(0), false
		}
		if p, ok := iv.v.(Ptr); ok && p.slot != nil {
			if c, ok := ex.errCodes[p.slot]; ok {
				return ex.mkInt(int64(c)), false
			}
		}
		return ex.mkInt(2), false
	}
}

// sameGraph compares two object graphs structurally and returns the Bool term
// "equal everywhere except at the allowed field paths".
func (ex *Exec) sameGraph(a, b Value, path string, allowed []string, seen map[[2]*Value]bool) *Term {
	for _, p := range allowed {
		if p == path {
			return ex.tc.tt
		}
	}
	tc := ex.tc
	switch x := a.(type) {
	case structV:
		y, ok := b.(structV)
		if !ok || len(x) != len(y) {
			return tc.ff
		}
		r := tc.tt
		for i := range x {
			r = tc.And(r, ex.sameGraph(x[i], y[i], fmt.Sprintf("%s.%d", path, i), allowed, seen))
		}
		return r
	case arrayV:
		y, ok := b.(arrayV)
		if !ok || len(x) != len(y) {
			return tc.ff
		}
		r := tc.tt
		for i := range x {
			r = tc.And(r, ex.sameGraph(x[i], y[i], path+"[]", allowed, seen))
		}
		return r
	case sliceV:
		y, ok := b.(sliceV)
		if !ok || len(x.arr) != len(y.arr) {
			return tc.ff
		}
		r := tc.tt
		for i := range x.arr {
			r = tc.And(r, ex.sameGraph(x.arr[i], y.arr[i], path+"[]", allowed, seen))
		}
		return r
	case Ptr:
		y, ok := b.(Ptr)
		if !ok {
			return tc.ff
		}
		if x.slot == nil || y.slot == nil {
			return tc.Bool(x.slot == nil && y.slot == nil)
		}
		k := [2]*Value{x.slot, y.slot}
		if seen[k] {
			return tc.tt
		}
		seen[k] = true
		return ex.sameGraph(*x.slot, *y.slot, path+"*", allowed, seen)
	case ifaceV:
		y, ok := b.(ifaceV)
		if !ok {
			return tc.ff
		}
		if x.t == nil || y.t == nil {
			return tc.Bool(x.t == nil && y.t == nil)
		}
		if !types.Identical(x.t, y.t) {
			return tc.ff
		}
		return ex.sameGraph(x.v, y.v, path+"~", allowed, seen)
	case *mapObj:
		y, ok := b.(*mapObj)
		if !ok || ex.mapLen(x) != ex.mapLen(y) {
			return tc.ff
		}
		r := tc.tt
		if x != nil {
			for i := range x.entries {
				r = tc.And(r, ex.eqVal(x.entries[i].key, y.entries[i].key))
				r = tc.And(r, ex.sameGraph(x.entries[i].val, y.entries[i].val, path+"{}", allowed, seen))
			}
		}
		return r
	case *chanObj, *closure, opaqueV:
		return tc.tt
	}
	return ex.eqVal(a, b)
}

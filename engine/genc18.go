package main

import (
	"fmt"
	"go/ast"
	"go/types"
	"os"
	"sort"
	"strings"

	"golang.org/x/tools/go/packages"
)

// genC18 generates, from the *types* of the current tree, one obligation per
// (root type of the legacy conversion tables, structural path to a failure
// message). The enumeration is independent of the generated visitor it checks:
// it walks the Go struct graph (pointer, slice, map and oneof-interface edges),
// visiting no message type twice on one path (the recursion bound of the
// repo's own generator, cmd/tools/genvisitor).
func genC18(repo string, maxObligations int) ([]byte, int, error) {
	os.Setenv("PATH", "/opt/veriftools/go1.26.8/bin:"+os.Getenv("PATH"))
	os.Setenv("GOTOOLCHAIN", "local")
	cfg := &packages.Config{
		Mode: packages.NeedName | packages.NeedFiles | packages.NeedCompiledGoFiles | packages.NeedImports | packages.NeedTypes |
			packages.NeedSyntax | packages.NeedTypesInfo | packages.NeedDeps,
		Dir: repo,
		Env: append(os.Environ(), "GOFLAGS=-mod=mod", "GOPROXY=off"),
	}
	pkgs, err := packages.Load(cfg, "./proto/compat")
	if err != nil || len(pkgs) != 1 {
		return nil, 0, fmt.Errorf("load ./proto/compat: %v", err)
	}
	pkg := pkgs[0]
	if len(pkg.Errors) > 0 {
		return nil, 0, fmt.Errorf("load ./proto/compat: %v", pkg.Errors[0])
	}
	// roots: the legacy types returned by the two conversion tables
	var roots []*types.Named
	seenRoot := map[*types.Named]bool{}
	for _, f := range pkg.Syntax {
		for _, d := range f.Decls {
			fd, ok := d.(*ast.FuncDecl)
			if !ok || (fd.Name.Name != "adminConvertTo122" && fd.Name.Name != "frontendConvertTo122") {
				continue
			}
			ast.Inspect(fd.Body, func(n ast.Node) bool {
				rs, ok := n.(*ast.ReturnStmt)
				if !ok || len(rs.Results) == 0 {
					return true
				}
				if ue, ok := rs.Results[0].(*ast.UnaryExpr); ok {
					if cl, ok := ue.X.(*ast.CompositeLit); ok {
						if nt, ok := pkg.TypesInfo.TypeOf(cl).(*types.Named); ok && !seenRoot[nt] {
							seenRoot[nt] = true
							roots = append(roots, nt)
						}
					}
				}
				return true
			})
		}
	}
	if len(roots) == 0 {
		return nil, 0, fmt.Errorf("no root types found in the conversion tables")
	}
	// plus the history-event root: the blob repair path calls the visitor on each legacy HistoryEvent
	packages.Visit(pkgs, nil, func(p *packages.Package) {
		if strings.HasSuffix(p.PkgPath, "proto/1_22/api/history/v1") && p.Types != nil {
			if o := p.Types.Scope().Lookup("HistoryEvent"); o != nil {
				if nt, ok := o.Type().(*types.Named); ok && !seenRoot[nt] {
					seenRoot[nt] = true
					roots = append(roots, nt)
				}
			}
		}
	})
	sort.Slice(roots, func(i, j int) bool { return roots[i].String() < roots[j].String() })

	isFailure := func(t types.Type) bool {
		n, ok := t.(*types.Named)
		return ok && n.Obj().Name() == "Failure" && n.Obj().Pkg() != nil && strings.HasSuffix(n.Obj().Pkg().Path(), "1_22/api/failure/v1")
	}
	// oneof implementers: named struct types of the same package whose pointer implements the interface
	implCache := map[*types.Named][]*types.Named{}
	implementers := func(it *types.Named) []*types.Named {
		if r, ok := implCache[it]; ok {
			return r
		}
		var res []*types.Named
		iface, _ := it.Underlying().(*types.Interface)
		scope := it.Obj().Pkg().Scope()
		for _, name := range scope.Names() {
			tn, ok := scope.Lookup(name).(*types.TypeName)
			if !ok {
				continue
			}
			nt, ok := tn.Type().(*types.Named)
			if !ok {
				continue
			}
			if _, ok := nt.Underlying().(*types.Struct); !ok {
				continue
			}
			if iface != nil && iface.NumMethods() > 0 && types.Implements(types.NewPointer(nt), iface) {
				res = append(res, nt)
			}
		}
		implCache[it] = res
		return res
	}

	type edge struct {
		field string
		kind  string // ptr, val, sliceptr, sliceval, mapptr, oneof
		key   string // map key literal
		keyT  string // map key type
		to    *types.Named
		wrap  *types.Named // oneof wrapper struct
		wrapF string
	}
	edgesCache := map[*types.Named][]edge{}
	var edgesOf func(n *types.Named) []edge
	structOf := func(t types.Type) (*types.Named, bool) {
		n, ok := t.(*types.Named)
		if !ok {
			return nil, false
		}
		_, ok = n.Underlying().(*types.Struct)
		return n, ok
	}
	keyLit := func(k types.Type) string {
		if b, ok := k.Underlying().(*types.Basic); ok {
			if b.Info()&types.IsString != 0 {
				return `"k"`
			}
			if b.Info()&types.IsInteger != 0 {
				return "1"
			}
			if b.Info()&types.IsBoolean != 0 {
				return "true"
			}
		}
		return ""
	}
	edgesOf = func(n *types.Named) []edge {
		if e, ok := edgesCache[n]; ok {
			return e
		}
		edgesCache[n] = nil
		st := n.Underlying().(*types.Struct)
		var es []edge
		for i := 0; i < st.NumFields(); i++ {
			f := st.Field(i)
			if !f.Exported() || strings.HasPrefix(f.Name(), "XXX_") {
				continue
			}
			switch ft := f.Type().(type) {
			case *types.Pointer:
				if to, ok := structOf(ft.Elem()); ok {
					es = append(es, edge{field: f.Name(), kind: "ptr", to: to})
				}
			case *types.Named:
				if to, ok := structOf(ft); ok {
					es = append(es, edge{field: f.Name(), kind: "val", to: to})
				} else if _, ok := ft.Underlying().(*types.Interface); ok {
					for _, w := range implementers(ft) {
						ws := w.Underlying().(*types.Struct)
						if ws.NumFields() != 1 {
							continue
						}
						wf := ws.Field(0)
						if p, ok := wf.Type().(*types.Pointer); ok {
							if to, ok := structOf(p.Elem()); ok {
								es = append(es, edge{field: f.Name(), kind: "oneof", to: to, wrap: w, wrapF: wf.Name()})
							}
						}
					}
				}
			case *types.Slice:
				if p, ok := ft.Elem().(*types.Pointer); ok {
					if to, ok := structOf(p.Elem()); ok {
						es = append(es, edge{field: f.Name(), kind: "sliceptr", to: to})
					}
				} else if to, ok := structOf(ft.Elem()); ok {
					es = append(es, edge{field: f.Name(), kind: "sliceval", to: to})
				}
			case *types.Map:
				if p, ok := ft.Elem().(*types.Pointer); ok {
					if to, ok := structOf(p.Elem()); ok {
						if kl := keyLit(ft.Key()); kl != "" {
							es = append(es, edge{field: f.Name(), kind: "mapptr", to: to, key: kl, keyT: ft.Key().String()})
						}
					}
				}
			}
		}
		edgesCache[n] = es
		return es
	}
	// which struct types can reach a Failure at all (fixpoint)
	reach := map[*types.Named]bool{}
	var all []*types.Named
	seenT := map[*types.Named]bool{}
	var collect func(n *types.Named)
	collect = func(n *types.Named) {
		if seenT[n] {
			return
		}
		seenT[n] = true
		all = append(all, n)
		for _, e := range edgesOf(n) {
			collect(e.to)
		}
	}
	for _, r := range roots {
		collect(r)
	}
	for changed := true; changed; {
		changed = false
		for _, n := range all {
			if reach[n] {
				continue
			}
			if isFailure(n) {
				reach[n] = true
				changed = true
				continue
			}
			for _, e := range edgesOf(n) {
				if reach[e.to] {
					reach[n] = true
					changed = true
					break
				}
			}
		}
	}

	imports := map[string]string{}
	qual := func(n *types.Named) string {
		p := n.Obj().Pkg().Path()
		a, ok := imports[p]
		if !ok {
			a = fmt.Sprintf("p%d", len(imports))
			imports[p] = a
		}
		return a + "." + n.Obj().Name()
	}

	type oblig struct {
		root string
		path string
		expr string
	}
	var obs []oblig
	truncated := false
	var walk func(n *types.Named, onPath map[*types.Named]bool, pathStr string, wrapExpr func(inner string) string)
	walk = func(n *types.Named, onPath map[*types.Named]bool, pathStr string, wrapExpr func(inner string) string) {
		if truncated {
			return
		}
		if isFailure(n) {
			if len(obs) >= maxObligations {
				truncated = true
				return
			}
			obs = append(obs, oblig{path: pathStr, expr: wrapExpr("c18ChA")})
			return
		}
		if onPath[n] {
			return
		}
		onPath[n] = true
		defer delete(onPath, n)
		for _, e := range edgesOf(n) {
			if !reach[e.to] {
				continue
			}
			e := e
			tq := qual(n)
			var mk func(inner string) string
			switch e.kind {
			case "ptr":
				mk = func(inner string) string { return fmt.Sprintf("&%s{%s: %s}", tq, e.field, inner) }
			case "val":
				mk = func(inner string) string { return fmt.Sprintf("&%s{%s: *(%s)}", tq, e.field, inner) }
			case "sliceptr":
				mk = func(inner string) string {
					return fmt.Sprintf("&%s{%s: c18Sl(sib, &%s{}, %s, %s)}", tq, e.field, qual(e.to), inner, strings.ReplaceAll(inner, "c18ChA", "c18ChB"))
				}
			case "sliceval":
				mk = func(inner string) string {
					return fmt.Sprintf("&%s{%s: c18Sl(sib, %s{}, *(%s), *(%s))}", tq, e.field, qual(e.to), inner, strings.ReplaceAll(inner, "c18ChA", "c18ChB"))
				}
			case "mapptr":
				mk = func(inner string) string { return fmt.Sprintf("&%s{%s: map[%s]*%s{%s: %s}}", tq, e.field, e.keyT, qual(e.to), e.key, inner) }
			case "oneof":
				wq := qual(e.wrap)
				mk = func(inner string) string {
					return fmt.Sprintf("&%s{%s: &%s{%s: %s}}", tq, e.field, wq, e.wrapF, inner)
				}
			}
			step := e.field
			if e.kind == "oneof" {
				step = e.field + "(" + e.wrap.Obj().Name() + ")"
			}
			outer := wrapExpr
			walk(e.to, onPath, pathStr+"/"+step, func(inner string) string { return outer(mk(inner)) })
		}
	}
	for _, r := range roots {
		walk(r, map[*types.Named]bool{}, r.Obj().Pkg().Name()+"."+r.Obj().Name(), func(inner string) string { return inner })
	}
	// the failure expression: the builder for *Failure nodes is the chain head itself
	var sb strings.Builder
	sb.WriteString("package compat\n\n// Code generated by gosx genc18 from the types of the current tree. DO NOT EDIT.\n\nimport (\n")
	var ips []string
	for p := range imports {
		ips = append(ips, p)
	}
	sort.Strings(ips)
	for _, p := range ips {
		fmt.Fprintf(&sb, "\t%s %q\n", imports[p], p)
	}
	fq := ""
	for p, a := range imports {
		if strings.HasSuffix(p, "1_22/api/failure/v1") {
			fq = a
		}
	}
	if fq == "" {
		return nil, 0, fmt.Errorf("failure package not reached from any root")
	}
	sb.WriteString(")\n\n")
	fmt.Fprintf(&sb, "type c18Failure = %s.Failure\n\n", fq)
	fmt.Fprintf(&sb, "const c18NumObligations = %d\nconst c18Truncated = %v\n\n", len(obs), truncated)
	sb.WriteString("func c18Path(i int) string {\n\tswitch i {\n")
	for i, o := range obs {
		fmt.Fprintf(&sb, "\tcase %d:\n\t\treturn %q\n", i, o.path)
	}
	sb.WriteString("\t}\n\treturn \"\"\n}\n\n")
	sb.WriteString("// c18HasRepeated: does the path of obligation i cross a repeated field?\nfunc c18HasRepeated(i int) bool {\n\tswitch i {\n")
	for i, o := range obs {
		if strings.Contains(o.expr, "c18Sl(") {
			fmt.Fprintf(&sb, "\tcase %d:\n\t\treturn true\n", i)
		}
	}
	sb.WriteString("\t}\n\treturn false\n}\n\n")
	sb.WriteString("// c18Build materialises the object graph of obligation i with the failure chain at the end of its path.\n")
	sb.WriteString("// c18Sl: the element on the path with sibling elements around it (sib 0: alone, 1: an empty one before, 2: after, 3: both, 4/5: a second copy of the same sub-path, holding the second failure chain, before / after)\nfunc c18Sl[T any](sib int, empty T, x T, x2 T) []T {\n\tswitch sib {\n\tcase 1:\n\t\treturn []T{empty, x}\n\tcase 2:\n\t\treturn []T{x, empty}\n\tcase 3:\n\t\treturn []T{empty, x, empty}\n\tcase 4:\n\t\treturn []T{x2, x}\n\tcase 5:\n\t\treturn []T{x, x2}\n\t}\n\treturn []T{x}\n}\n\n")
	sb.WriteString("func c18Build(i int, chain *c18Failure, sib int, chain2 *c18Failure) any {\n\tc18ChA, c18ChB := chain, chain2\n\t_, _ = c18ChA, c18ChB\n\tswitch i {\n")
	for i, o := range obs {
		fmt.Fprintf(&sb, "\tcase %d:\n\t\treturn %s\n", i, o.expr)
	}
	sb.WriteString("\t}\n\treturn nil\n}\n")
	return []byte(sb.String()), len(obs), nil
}

func mapKeyType(lit string) string {
	switch lit {
	case `"k"`:
		return "string"
	case "true":
		return "bool"
	}
	return "int32"
}

package main

import (
	"go/types"

	"golang.org/x/tools/go/ssa"
)

// ---------------------------------------------------------------------------
// channels

func (ex *Exec) blockedPartner(ch *chanObj, self *Thread, wantSend bool) (*Thread, int) {
	for _, t := range ex.threads {
		if t == self || t.state != tBlocked || t.selRes != nil {
			continue
		}
		for i, c := range t.selCases {
			if c.ch == ch && c.send == wantSend {
				return t, i
			}
		}
	}
	return nil, -1
}

func (ex *Exec) caseReady(c selCase, self *Thread, partners bool) bool {
	if c.ch == nil {
		return false
	}
	if c.send {
		if c.ch.closed || len(c.ch.buf) < c.ch.capa {
			return true
		}
		if partners {
			if p, _ := ex.blockedPartner(c.ch, self, false); p != nil {
				return true
			}
		}
		return false
	}
	if len(c.ch.buf) > 0 || c.ch.closed {
		return true
	}
	if partners {
		if p, _ := ex.blockedPartner(c.ch, self, true); p != nil {
			return true
		}
	}
	return false
}

// selectOp is the common implementation of send, receive and select.
// It returns (result, done). When not done the thread has been blocked and the
// instruction will be retried.
func (ex *Exec) selectOp(th *Thread, cases []selCase, hasDefault bool, what string) (*selResult, bool) {
	if th.selRes != nil {
		r := th.selRes
		th.selRes = nil
		th.selCases = nil
		return r, true
	}
	th.selCases = nil
	var ready []int
	for i, c := range cases {
		if ex.caseReady(c, th, true) {
			ready = append(ready, i)
		}
	}
	if len(ready) == 0 {
		if hasDefault {
			return &selResult{idx: -1}, true
		}
		th.selCases = cases
		cs := cases
		ex.block(th, what, func() bool {
			if th.selRes != nil {
				return true
			}
			for _, c := range cs {
				if ex.caseReady(c, th, false) {
					return true
				}
			}
			return false
		})
		return nil, false
	}
	k := 0
	if len(ready) > 1 {
		k = ex.decide("select", len(ready), nil, false)
	}
	idx := ready[k]
	c := cases[idx]
	res := &selResult{idx: idx}
	if c.send {
		if c.ch.closed {
			res.closed = true // caller raises the panic
			return res, true
		}
		if p, pi := ex.blockedPartner(c.ch, th, false); p != nil && len(c.ch.buf) == 0 {
			p.selRes = &selResult{idx: pi, val: copyVal(c.val), ok: true}
			return res, true
		}
		c.ch.buf = append(c.ch.buf, copyVal(c.val))
		return res, true
	}
	if len(c.ch.buf) > 0 {
		res.val, res.ok = c.ch.buf[0], true
		c.ch.buf = c.ch.buf[1:]
		return res, true
	}
	if p, pi := ex.blockedPartner(c.ch, th, true); p != nil {
		res.val, res.ok = copyVal(p.selCases[pi].val), true
		p.selRes = &selResult{idx: pi}
		return res, true
	}
	// closed and drained
	res.val, res.ok = ex.zero(c.ch.elemT), false
	return res, true
}

func (ex *Exec) doSend(th *Thread, fr *Frame, x *ssa.Send) {
	if th.selRes == nil && ex.maybePreempt(th, "send") {
		return
	}
	ch, _ := ex.get(fr, x.Chan).(*chanObj)
	res, done := ex.selectOp(th, []selCase{{ch: ch, send: true, val: ex.get(fr, x.X)}}, false, "chan send")
	if !done {
		return
	}
	if res.closed {
		ex.goPanic(th, ifaceV{t: ex.eng.runtimeErrT, v: strV{s: "send on closed channel"}}, "send on closed channel")
		return
	}
	fr.pc++
}

func (ex *Exec) doRecv(th *Thread, fr *Frame, x *ssa.UnOp, chv Value) {
	if th.selRes == nil && ex.maybePreempt(th, "recv") {
		return
	}
	ch, _ := chv.(*chanObj)
	res, done := ex.selectOp(th, []selCase{{ch: ch}}, false, "chan receive")
	if !done {
		return
	}
	if x.CommaOk {
		ex.set(fr, x, tupleV{res.val, ex.tc.Bool(res.ok)})
	} else {
		ex.set(fr, x, res.val)
	}
	fr.pc++
}

func (ex *Exec) doSelect(th *Thread, fr *Frame, x *ssa.Select) {
	if th.selRes == nil && ex.maybePreempt(th, "select") {
		return
	}
	cases := make([]selCase, len(x.States))
	for i, st := range x.States {
		ch, _ := ex.get(fr, st.Chan).(*chanObj)
		cases[i] = selCase{ch: ch, send: st.Dir == types.SendOnly}
		if cases[i].send {
			cases[i].val = ex.get(fr, st.Send)
		}
	}
	res, done := ex.selectOp(th, cases, !x.Blocking, "select")
	if !done {
		return
	}
	if res.closed {
		ex.goPanic(th, ifaceV{t: ex.eng.runtimeErrT, v: strV{s: "send on closed channel"}}, "send on closed channel")
		return
	}
	tup := tupleV{ex.tc.Const(64, uint64(int64(res.idx))), ex.tc.Bool(res.ok)}
	for i, st := range x.States {
		if st.Dir == types.RecvOnly {
			if i == res.idx {
				tup = append(tup, res.val)
			} else {
				tup = append(tup, ex.zero(st.Chan.Type().Underlying().(*types.Chan).Elem()))
			}
		}
	}
	ex.set(fr, x, tup)
	fr.pc++
}

func (ex *Exec) closeChan(th *Thread, ch *chanObj) {
	if ch == nil {
		ex.goPanic(th, ifaceV{t: ex.eng.runtimeErrT, v: strV{s: "close of nil channel"}}, "close of nil channel")
		return
	}
	if ch.closed {
		ex.goPanic(th, ifaceV{t: ex.eng.runtimeErrT, v: strV{s: "close of closed channel"}}, "close of closed channel")
		return
	}
	ch.closed = true
	// blocked senders on this channel will panic when retried (caseReady: closed)
}

// ---------------------------------------------------------------------------
// sync primitives (state keyed by the address of the primitive)

type mutexState struct {
	locked  bool
	readers int
}

type wgState struct{ n int64 }

func (ex *Exec) mutexOf(p Ptr) *mutexState {
	if p.slot == nil {
		panic(unsupported("mutex through nil/symbolic pointer"))
	}
	m, ok := ex.mutexes[p.slot]
	if !ok {
		m = &mutexState{}
		ex.mutexes[p.slot] = m
	}
	return m
}

func (ex *Exec) wgOf(p Ptr) *wgState {
	if p.slot == nil {
		panic(unsupported("waitgroup through nil pointer"))
	}
	m, ok := ex.wgs[p.slot]
	if !ok {
		m = &wgState{}
		ex.wgs[p.slot] = m
	}
	return m
}

// ---------------------------------------------------------------------------
// virtual time

type vtimer struct {
	deadline int64
	period   int64
	ch       *chanObj
	fn       *closure
	stopped  bool
	key      *Value
}

func (ex *Exec) advance(d int64) {
	ex.clock += d
	ex.wakeSleepers()
	for _, t := range ex.timers {
		if t.stopped || t.deadline > ex.clock {
			continue
		}
		if t.ch != nil {
			if len(t.ch.buf) < t.ch.capa {
				t.ch.buf = append(t.ch.buf, ex.timeValue(ex.clock))
			}
		}
		if t.fn != nil {
			ex.spawn(t.fn, nil)
		}
		if t.period > 0 {
			for t.deadline <= ex.clock {
				t.deadline += t.period
			}
		} else {
			t.stopped = true
		}
	}
}

const unixToInternal = 62135596800

func (ex *Exec) timeValue(ns int64) Value {
	sec := ns / 1e9
	nsec := ns % 1e9
	return structV{ex.tc.Const(64, uint64(nsec)), ex.tc.Const(64, uint64(sec+unixToInternal)), Ptr{}}
}

func (ex *Exec) now() Value {
	ex.clock += 1000
	return ex.timeValue(ex.clock)
}

package main

import (
	"fmt"
	"math/bits"
	"strings"
)

// Term is a node of the per-path expression DAG. W==0 means Bool, otherwise a
// bit-vector of width W. Constants are folded eagerly, so a fully concrete
// execution never creates a non-constant term.
type Op uint8

const (
	OpConst Op = iota
	OpVar
	OpAdd
	OpSub
	OpMul
	OpUDiv
	OpSDiv
	OpURem
	OpSRem
	OpAnd
	OpOr
	OpXor
	OpShl
	OpLShr
	OpAShr
	OpNot // bvnot / bool not
	OpNeg
	OpEq
	OpULt
	OpULe
	OpSLt
	OpSLe
	OpBAnd // bool and
	OpBOr
	OpIte
	OpZExt
	OpSExt
	OpExtract // args[0], hi=aux1 lo=aux2
	OpApp     // uninterpreted function application name(args)
)

type Term struct {
	op   Op
	w    int
	args []*Term
	c    uint64 // constant value (masked), or aux for extract (hi<<8|lo)
	name string
	id   int
}

func (t *Term) IsConst() bool { return t.op == OpConst }
func (t *Term) IsBool() bool  { return t.w == 0 }

// TermCtx hash-conses terms for one path execution.
type termKey struct {
	op         Op
	w          int
	c          uint64
	name       string
	a0, a1, a2 int
	n          int
}

type TermCtx struct {
	tab    map[termKey]*Term
	nextID int
	vars   []*Term
	apps   map[string][]int // uninterpreted function name -> arg widths + result width (last)
	tt, ff *Term
}

func newTermCtx() *TermCtx {
	c := &TermCtx{tab: map[termKey]*Term{}, apps: map[string][]int{}}
	c.tt = c.mk(&Term{op: OpConst, w: 0, c: 1})
	c.ff = c.mk(&Term{op: OpConst, w: 0, c: 0})
	return c
}

func (c *TermCtx) key(t *Term) termKey {
	k := termKey{op: t.op, w: t.w, c: t.c, name: t.name, a0: -1, a1: -1, a2: -1, n: len(t.args)}
	switch len(t.args) {
	case 0:
	case 1:
		k.a0 = t.args[0].id
	case 2:
		k.a0, k.a1 = t.args[0].id, t.args[1].id
	case 3:
		k.a0, k.a1, k.a2 = t.args[0].id, t.args[1].id, t.args[2].id
	default:
		// n-ary applications: fold the ids into the name
		var sb strings.Builder
		sb.WriteString(t.name)
		for _, a := range t.args {
			fmt.Fprintf(&sb, ",%d", a.id)
		}
		k.name = sb.String()
	}
	return k
}

func (c *TermCtx) mk(t *Term) *Term {
	k := c.key(t)
	if e, ok := c.tab[k]; ok {
		return e
	}
	t.id = c.nextID
	c.nextID++
	c.tab[k] = t
	return t
}

func mask(w int) uint64 {
	if w >= 64 {
		return ^uint64(0)
	}
	return (uint64(1) << uint(w)) - 1
}

func (c *TermCtx) Const(w int, v uint64) *Term {
	if w == 0 {
		if v != 0 {
			return c.tt
		}
		return c.ff
	}
	return c.mk(&Term{op: OpConst, w: w, c: v & mask(w)})
}
func (c *TermCtx) Bool(b bool) *Term {
	if b {
		return c.tt
	}
	return c.ff
}
func (c *TermCtx) Var(name string, w int) *Term {
	t := c.mk(&Term{op: OpVar, w: w, name: name})
	if t.id == c.nextID-1 {
		c.vars = append(c.vars, t)
	}
	return t
}

func sext(v uint64, w int) int64 {
	if w >= 64 {
		return int64(v)
	}
	sh := uint(64 - w)
	return int64(v<<sh) >> sh
}

func (c *TermCtx) Bin(op Op, a, b *Term) *Term {
	w := a.w
	if a.w != b.w {
		panic(fmt.Sprintf("width mismatch op=%d %d vs %d", op, a.w, b.w))
	}
	rw := w
	switch op {
	case OpEq, OpULt, OpULe, OpSLt, OpSLe:
		rw = 0
	}
	if a.op == OpConst && b.op == OpConst {
		x, y := a.c, b.c
		var r uint64
		ok := true
		switch op {
		case OpAdd:
			r = x + y
		case OpSub:
			r = x - y
		case OpMul:
			r = x * y
		case OpUDiv:
			if y == 0 {
				r = mask(w)
			} else {
				r = x / y
			}
		case OpURem:
			if y == 0 {
				r = x
			} else {
				r = x % y
			}
		case OpSDiv:
			sx, sy := sext(x, w), sext(y, w)
			if sy == 0 {
				if sx < 0 {
					r = 1
				} else {
					r = mask(w)
				}
			} else if sy == -1 {
				r = uint64(-sx)
			} else {
				r = uint64(sx / sy)
			}
		case OpSRem:
			sx, sy := sext(x, w), sext(y, w)
			if sy == 0 {
				r = x
			} else if sy == -1 {
				r = 0
			} else {
				r = uint64(sx % sy)
			}
		case OpAnd:
			r = x & y
		case OpOr:
			r = x | y
		case OpXor:
			r = x ^ y
		case OpShl:
			if y >= uint64(w) {
				r = 0
			} else {
				r = x << y
			}
		case OpLShr:
			if y >= uint64(w) {
				r = 0
			} else {
				r = x >> y
			}
		case OpAShr:
			sx := sext(x, w)
			if y >= uint64(w) {
				if sx < 0 {
					r = mask(w)
				} else {
					r = 0
				}
			} else {
				r = uint64(sx >> y)
			}
		case OpEq:
			r = b2u(x == y)
		case OpULt:
			r = b2u(x < y)
		case OpULe:
			r = b2u(x <= y)
		case OpSLt:
			r = b2u(sext(x, w) < sext(y, w))
		case OpSLe:
			r = b2u(sext(x, w) <= sext(y, w))
		case OpBAnd:
			r = x & y
		case OpBOr:
			r = x | y
		default:
			ok = false
		}
		if ok {
			return c.Const(rw, r)
		}
	}
	// light algebraic simplification
	switch op {
	case OpEq:
		if a == b {
			return c.tt
		}
		if w == 0 {
			if a.op == OpConst {
				if a.c == 1 {
					return b
				}
				return c.Not(b)
			}
			if b.op == OpConst {
				if b.c == 1 {
					return a
				}
				return c.Not(a)
			}
		}
	case OpBAnd:
		if a.op == OpConst {
			if a.c == 0 {
				return c.ff
			}
			return b
		}
		if b.op == OpConst {
			if b.c == 0 {
				return c.ff
			}
			return a
		}
		if a == b {
			return a
		}
	case OpBOr:
		if a.op == OpConst {
			if a.c == 1 {
				return c.tt
			}
			return b
		}
		if b.op == OpConst {
			if b.c == 1 {
				return c.tt
			}
			return a
		}
		if a == b {
			return a
		}
	case OpAdd:
		if a.op == OpConst && a.c == 0 {
			return b
		}
		if b.op == OpConst && b.c == 0 {
			return a
		}
	case OpSub:
		if b.op == OpConst && b.c == 0 {
			return a
		}
		if a == b {
			return c.Const(w, 0)
		}
	case OpMul:
		if a.op == OpConst && a.c == 1 {
			return b
		}
		if b.op == OpConst && b.c == 1 {
			return a
		}
		if (a.op == OpConst && a.c == 0) || (b.op == OpConst && b.c == 0) {
			return c.Const(w, 0)
		}
	case OpULt, OpSLt:
		if a == b {
			return c.ff
		}
	case OpULe, OpSLe:
		if a == b {
			return c.tt
		}
	case OpAnd:
		if a == b {
			return a
		}
		if (a.op == OpConst && a.c == 0) || (b.op == OpConst && b.c == 0) {
			return c.Const(w, 0)
		}
		if a.op == OpConst && a.c == mask(w) {
			return b
		}
		if b.op == OpConst && b.c == mask(w) {
			return a
		}
	case OpOr, OpXor:
		if a.op == OpConst && a.c == 0 {
			return b
		}
		if b.op == OpConst && b.c == 0 {
			return a
		}
	}
	return c.mk(&Term{op: op, w: rw, args: []*Term{a, b}})
}

func b2u(b bool) uint64 {
	if b {
		return 1
	}
	return 0
}

func (c *TermCtx) Not(a *Term) *Term {
	if a.op == OpConst {
		if a.w == 0 {
			return c.Const(0, a.c^1)
		}
		return c.Const(a.w, ^a.c)
	}
	if a.op == OpNot {
		return a.args[0]
	}
	return c.mk(&Term{op: OpNot, w: a.w, args: []*Term{a}})
}
func (c *TermCtx) Neg(a *Term) *Term {
	if a.op == OpConst {
		return c.Const(a.w, -a.c)
	}
	return c.mk(&Term{op: OpNeg, w: a.w, args: []*Term{a}})
}
func (c *TermCtx) And(a, b *Term) *Term { return c.Bin(OpBAnd, a, b) }
func (c *TermCtx) Or(a, b *Term) *Term  { return c.Bin(OpBOr, a, b) }
func (c *TermCtx) Eq(a, b *Term) *Term  { return c.Bin(OpEq, a, b) }
func (c *TermCtx) Implies(a, b *Term) *Term {
	return c.Or(c.Not(a), b)
}
func (c *TermCtx) Ite(cond, a, b *Term) *Term {
	if cond.op == OpConst {
		if cond.c == 1 {
			return a
		}
		return b
	}
	if a == b {
		return a
	}
	if a.w != b.w {
		panic("ite width mismatch")
	}
	if a.w == 0 {
		if a.op == OpConst && b.op == OpConst {
			if a.c == 1 {
				return cond
			}
			return c.Not(cond)
		}
	}
	return c.mk(&Term{op: OpIte, w: a.w, args: []*Term{cond, a, b}})
}

// Resize converts a bit-vector to width w (truncate, or extend by signedness).
func (c *TermCtx) Resize(a *Term, w int, signed bool) *Term {
	if a.w == w {
		return a
	}
	if a.op == OpConst {
		if w < a.w {
			return c.Const(w, a.c)
		}
		if signed {
			return c.Const(w, uint64(sext(a.c, a.w)))
		}
		return c.Const(w, a.c)
	}
	if w < a.w {
		return c.mk(&Term{op: OpExtract, w: w, args: []*Term{a}, c: uint64(w-1)<<8 | 0})
	}
	if signed {
		return c.mk(&Term{op: OpSExt, w: w, args: []*Term{a}})
	}
	return c.mk(&Term{op: OpZExt, w: w, args: []*Term{a}})
}

func (c *TermCtx) App(name string, w int, args ...*Term) *Term {
	allConst := true
	for _, a := range args {
		if a.op != OpConst {
			allConst = false
		}
	}
	_ = allConst
	sig := make([]int, 0, len(args)+1)
	for _, a := range args {
		sig = append(sig, a.w)
	}
	sig = append(sig, w)
	c.apps[name] = sig
	return c.mk(&Term{op: OpApp, w: w, name: name, args: args})
}

func sortOf(w int) string {
	if w == 0 {
		return "Bool"
	}
	return fmt.Sprintf("(_ BitVec %d)", w)
}

func constLit(t *Term) string {
	if t.w == 0 {
		if t.c == 1 {
			return "true"
		}
		return "false"
	}
	if t.w%4 == 0 {
		return fmt.Sprintf("#x%0*x", t.w/4, t.c)
	}
	return fmt.Sprintf("#b%0*b", t.w, t.c)
}

var opNames = map[Op]string{
	OpAdd: "bvadd", OpSub: "bvsub", OpMul: "bvmul", OpUDiv: "bvudiv", OpSDiv: "bvsdiv",
	OpURem: "bvurem", OpSRem: "bvsrem", OpAnd: "bvand", OpOr: "bvor", OpXor: "bvxor",
	OpShl: "bvshl", OpLShr: "bvlshr", OpAShr: "bvashr", OpEq: "=", OpULt: "bvult",
	OpULe: "bvule", OpSLt: "bvslt", OpSLe: "bvsle", OpBAnd: "and", OpBOr: "or", OpIte: "ite",
	OpNeg: "bvneg",
}

func ref(t *Term) string {
	switch t.op {
	case OpConst:
		return constLit(t)
	case OpVar:
		return t.name
	}
	return fmt.Sprintf("t%d", t.id)
}

// body prints the defining expression of a non-leaf term in terms of refs.
func body(t *Term) string {
	switch t.op {
	case OpNot:
		if t.w == 0 {
			return "(not " + ref(t.args[0]) + ")"
		}
		return "(bvnot " + ref(t.args[0]) + ")"
	case OpZExt:
		return fmt.Sprintf("((_ zero_extend %d) %s)", t.w-t.args[0].w, ref(t.args[0]))
	case OpSExt:
		return fmt.Sprintf("((_ sign_extend %d) %s)", t.w-t.args[0].w, ref(t.args[0]))
	case OpExtract:
		return fmt.Sprintf("((_ extract %d %d) %s)", t.c>>8, t.c&0xff, ref(t.args[0]))
	case OpApp:
		if len(t.args) == 0 {
			return t.name
		}
		var sb strings.Builder
		sb.WriteString("(" + t.name)
		for _, a := range t.args {
			sb.WriteString(" " + ref(a))
		}
		sb.WriteString(")")
		return sb.String()
	}
	n, ok := opNames[t.op]
	if !ok {
		panic(fmt.Sprintf("no smt name for op %d", t.op))
	}
	var sb strings.Builder
	sb.WriteString("(" + n)
	for _, a := range t.args {
		sb.WriteString(" " + ref(a))
	}
	sb.WriteString(")")
	return sb.String()
}

// eval evaluates a term under a model (var name -> value); used for replay
// extraction and self-checks. Uninterpreted applications are looked up by
// their printed form.
func eval(t *Term, m map[string]uint64, memo map[int]uint64) uint64 {
	if v, ok := memo[t.id]; ok {
		return v
	}
	var r uint64
	switch t.op {
	case OpConst:
		r = t.c
	case OpVar:
		r = m[t.name] & maskB(t.w)
	case OpApp:
		r = m[body(t)] & maskB(t.w)
	case OpNot:
		if t.w == 0 {
			r = eval(t.args[0], m, memo) ^ 1
		} else {
			r = ^eval(t.args[0], m, memo) & mask(t.w)
		}
	case OpNeg:
		r = (-eval(t.args[0], m, memo)) & mask(t.w)
	case OpIte:
		if eval(t.args[0], m, memo) == 1 {
			r = eval(t.args[1], m, memo)
		} else {
			r = eval(t.args[2], m, memo)
		}
	case OpZExt:
		r = eval(t.args[0], m, memo)
	case OpSExt:
		r = uint64(sext(eval(t.args[0], m, memo), t.args[0].w)) & mask(t.w)
	case OpExtract:
		r = eval(t.args[0], m, memo) & mask(t.w)
	default:
		tc := newTermCtx()
		a := tc.Const(t.args[0].w, eval(t.args[0], m, memo))
		b := tc.Const(t.args[1].w, eval(t.args[1], m, memo))
		r = tc.Bin(t.op, a, b).c
	}
	memo[t.id] = r
	return r
}

func maskB(w int) uint64 {
	if w == 0 {
		return 1
	}
	return mask(w)
}

var _ = bits.Len

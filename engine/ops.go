package main

import (
	"fmt"
	"go/token"
	"go/types"
	"math"
	"unicode/utf8"

	"golang.org/x/tools/go/ssa"
)

func (ex *Exec) binop(th *Thread, op token.Token, xt types.Type, a, b Value, yt types.Type) Value {
	tc := ex.tc
	switch op {
	case token.EQL:
		return ex.eqVal(a, b)
	case token.NEQ:
		return tc.Not(ex.eqVal(a, b))
	}
	switch x := a.(type) {
	case *Term:
		y := b.(*Term)
		signed := isSigned(xt)
		if x.w == 0 {
			switch op {
			case token.AND, token.LAND:
				return tc.And(x, y)
			case token.OR, token.LOR:
				return tc.Or(x, y)
			case token.XOR:
				return tc.Not(tc.Eq(x, y))
			}
			panic(unsupported("bool binop " + op.String()))
		}
		switch op {
		case token.ADD:
			return tc.Bin(OpAdd, x, y)
		case token.SUB:
			return tc.Bin(OpSub, x, y)
		case token.MUL:
			return tc.Bin(OpMul, x, y)
		case token.QUO, token.REM:
			zero := tc.Eq(y, tc.Const(y.w, 0))
			if ex.branch(zero, "divzero") {
				ex.runtimePanic(th, "integer divide by zero")
				return nil
			}
			if op == token.QUO {
				if signed {
					return tc.Bin(OpSDiv, x, y)
				}
				return tc.Bin(OpUDiv, x, y)
			}
			if signed {
				return tc.Bin(OpSRem, x, y)
			}
			return tc.Bin(OpURem, x, y)
		case token.AND:
			return tc.Bin(OpAnd, x, y)
		case token.OR:
			return tc.Bin(OpOr, x, y)
		case token.XOR:
			return tc.Bin(OpXor, x, y)
		case token.AND_NOT:
			return tc.Bin(OpAnd, x, tc.Not(y))
		case token.SHL, token.SHR:
			sop := OpShl
			if op == token.SHR {
				if signed {
					sop = OpAShr
				} else {
					sop = OpLShr
				}
			}
			if isSigned(yt) {
				neg := tc.Bin(OpSLt, y, tc.Const(y.w, 0))
				if ex.branch(neg, "negshift") {
					ex.runtimePanic(th, "negative shift amount")
					return nil
				}
			}
			if y.w <= x.w {
				return tc.Bin(sop, x, tc.Resize(y, x.w, false))
			}
			big := tc.Not(tc.Bin(OpULt, y, tc.Const(y.w, uint64(x.w))))
			var over *Term
			if sop == OpAShr {
				over = tc.Bin(OpAShr, x, tc.Const(x.w, uint64(x.w-1)))
			} else {
				over = tc.Const(x.w, 0)
			}
			return tc.Ite(big, over, tc.Bin(sop, x, tc.Resize(y, x.w, false)))
		case token.LSS:
			if signed {
				return tc.Bin(OpSLt, x, y)
			}
			return tc.Bin(OpULt, x, y)
		case token.LEQ:
			if signed {
				return tc.Bin(OpSLe, x, y)
			}
			return tc.Bin(OpULe, x, y)
		case token.GTR:
			if signed {
				return tc.Bin(OpSLt, y, x)
			}
			return tc.Bin(OpULt, y, x)
		case token.GEQ:
			if signed {
				return tc.Bin(OpSLe, y, x)
			}
			return tc.Bin(OpULe, y, x)
		}
	case strV:
		y := b.(strV)
		if x.opaque || y.opaque {
			if op == token.ADD {
				return strV{opaque: true}
			}
			panic(unsupported("operation on opaque string"))
		}
		if op == token.ADD {
			return concatStr(x, y)
		}
		if x.sym != nil || y.sym != nil || x.ite != nil || y.ite != nil {
			panic(unsupported("ordering comparison of symbolic strings"))
		}
		switch op {
		case token.LSS:
			return tc.Bool(x.s < y.s)
		case token.LEQ:
			return tc.Bool(x.s <= y.s)
		case token.GTR:
			return tc.Bool(x.s > y.s)
		case token.GEQ:
			return tc.Bool(x.s >= y.s)
		}
	case floatV:
		y := b.(floatV)
		switch op {
		case token.ADD:
			return x + y
		case token.SUB:
			return x - y
		case token.MUL:
			return x * y
		case token.QUO:
			return x / y
		case token.LSS:
			return tc.Bool(x < y)
		case token.LEQ:
			return tc.Bool(x <= y)
		case token.GTR:
			return tc.Bool(x > y)
		case token.GEQ:
			return tc.Bool(x >= y)
		}
	}
	panic(unsupported(fmt.Sprintf("binop %s on %T", op, a)))
}

func (ex *Exec) convert(v Value, from, to types.Type) Value {
	tc := ex.tc
	fu, tu := from.Underlying(), to.Underlying()
	switch x := v.(type) {
	case *Term:
		if tb, ok := tu.(*types.Basic); ok {
			if w, _, ok := intWidth(tb); ok && w > 0 {
				return tc.Resize(x, w, isSigned(from))
			}
			if tb.Info()&types.IsFloat != 0 {
				if !x.IsConst() {
					return floatV(math.NaN()) // symbolic int -> float: only used for metrics
				}
				if isSigned(from) {
					return floatV(float64(sext(x.c, x.w)))
				}
				return floatV(float64(x.c))
			}
			if tb.Info()&types.IsString != 0 {
				if !x.IsConst() {
					panic(unsupported("string(symbolic rune)"))
				}
				return strV{s: string(rune(sext(x.c, x.w)))}
			}
			if tb.Kind() == types.UnsafePointer {
				return Ptr{}
			}
		}
	case floatV:
		if tb, ok := tu.(*types.Basic); ok {
			if w, signed, ok := intWidth(tb); ok && w > 0 {
				if signed {
					return tc.Const(w, uint64(int64(x)))
				}
				return tc.Const(w, uint64(x))
			}
			if tb.Info()&types.IsFloat != 0 {
				if tb.Kind() == types.Float32 {
					return floatV(float32(x))
				}
				return x
			}
		}
	case strV:
		switch t := tu.(type) {
		case *types.Basic:
			if t.Info()&types.IsString != 0 {
				return x
			}
		case *types.Slice:
			if x.opaque {
				panic(unsupported("[]byte(opaque string)"))
			}
			eb := t.Elem().Underlying().(*types.Basic)
			if eb.Kind() == types.Uint8 {
				arr := make([]Value, len(x.s))
				for i := 0; i < len(x.s); i++ {
					arr[i] = tc.Const(8, uint64(x.s[i]))
				}
				return sliceV{arr: arr}
			}
			var arr []Value
			for _, r := range x.s {
				arr = append(arr, tc.Const(32, uint64(r)))
			}
			return sliceV{arr: arr}
		}
	case sliceV:
		if tb, ok := tu.(*types.Basic); ok && tb.Info()&types.IsString != 0 {
			eb := fu.(*types.Slice).Elem().Underlying().(*types.Basic)
			if eb.Kind() == types.Uint8 {
				bs := make([]byte, len(x.arr))
				for i, e := range x.arr {
					t := e.(*Term)
					if !t.IsConst() {
						panic(unsupported("string(symbolic bytes)"))
					}
					bs[i] = byte(t.c)
				}
				return strV{s: string(bs)}
			}
			var rs []rune
			for _, e := range x.arr {
				rs = append(rs, rune(e.(*Term).c))
			}
			return strV{s: string(rs)}
		}
		if _, ok := tu.(*types.Slice); ok {
			return x
		}
	case Ptr:
		return x
	}
	if types.Identical(fu, tu) {
		return v
	}
	panic(unsupported(fmt.Sprintf("convert %s -> %s (%T)", from, to, v)))
}

// boundsCheck forks on 0 <= idx < n; returns false if the path panics.
func (ex *Exec) boundsCheck(th *Thread, idx *Term, n *Term, what string) bool {
	tc := ex.tc
	i64 := tc.Resize(idx, 64, true)
	in := tc.And(tc.Bin(OpSLe, tc.Const(64, 0), i64), tc.Bin(OpSLt, i64, n))
	if ex.branch(in, "bounds") {
		return true
	}
	ex.runtimePanic(th, "index out of range ("+what+")")
	return false
}

func (ex *Exec) index(th *Thread, fr *Frame, x *ssa.Index) {
	c := ex.get(fr, x.X)
	idx := ex.get(fr, x.Index).(*Term)
	switch a := c.(type) {
	case arrayV:
		if !ex.boundsCheck(th, idx, ex.tc.Const(64, uint64(len(a))), "array") {
			return
		}
		i := ex.concretize(idx, "array-index")
		ex.set(fr, x, copyVal(a[i]))
	case strV:
		if !ex.boundsCheck(th, idx, ex.tc.Const(64, uint64(len(a.s))), "string") {
			return
		}
		i := ex.concretize(idx, "string-index")
		ex.set(fr, x, ex.tc.Const(8, uint64(a.s[i])))
	default:
		panic(unsupported(fmt.Sprintf("Index on %T", c)))
	}
	fr.pc++
}

func (ex *Exec) indexAddr(th *Thread, fr *Frame, x *ssa.IndexAddr) {
	c := ex.get(fr, x.X)
	idx := ex.tc.Resize(ex.get(fr, x.Index).(*Term), 64, isSigned(x.Index.Type()))
	var arr []Value
	switch a := c.(type) {
	case sliceV:
		if a.abs != nil {
			if !ex.boundsCheck(th, idx, a.abs.length, "slice") {
				return
			}
			ex.set(fr, x, Ptr{abs: a.abs, absIdx: idx})
			fr.pc++
			return
		}
		arr = a.arr
	case Ptr:
		if a.isNil() {
			ex.runtimePanic(th, "invalid memory address or nil pointer dereference")
			return
		}
		av, ok := (*a.slot).(arrayV)
		if !ok {
			panic(unsupported("IndexAddr through pointer to non-array"))
		}
		arr = av
	default:
		panic(unsupported(fmt.Sprintf("IndexAddr on %T", c)))
	}
	if !ex.boundsCheck(th, idx, ex.tc.Const(64, uint64(len(arr))), "slice") {
		return
	}
	if idx.IsConst() {
		ex.set(fr, x, Ptr{slot: &arr[idx.c]})
		fr.pc++
		return
	}
	// symbolic index: flat element types are handled by ite, others by forking
	if len(arr) > 0 && ex.flat(arr[0]) && len(arr) <= 64 {
		ex.set(fr, x, Ptr{symArr: arr, symIdx: idx})
	} else {
		i := ex.concretize(idx, "slice-index")
		ex.set(fr, x, Ptr{slot: &arr[i]})
	}
	fr.pc++
}

func (ex *Exec) flat(v Value) bool {
	switch x := v.(type) {
	case *Term:
		return true
	case structV:
		for _, f := range x {
			if !ex.flat(f) {
				return false
			}
		}
		return true
	case arrayV:
		for _, f := range x {
			if !ex.flat(f) {
				return false
			}
		}
		return true
	}
	return false
}

func (ex *Exec) slice(th *Thread, fr *Frame, x *ssa.Slice) {
	c := ex.get(fr, x.X)
	getI := func(v ssa.Value, def int) int {
		if v == nil {
			return def
		}
		return int(int64(ex.concretize(ex.tc.Resize(ex.get(fr, v).(*Term), 64, true), "slice-bound")))
	}
	switch a := c.(type) {
	case strV:
		if a.opaque {
			ex.set(fr, x, a)
			fr.pc++
			return
		}
		lo, hi := getI(x.Low, 0), getI(x.High, len(a.s))
		if lo < 0 || hi < lo || hi > len(a.s) {
			ex.runtimePanic(th, "slice bounds out of range")
			return
		}
		ex.set(fr, x, strV{s: a.s[lo:hi]})
	case sliceV:
		if a.abs != nil {
			if x.Low != nil {
				if lt := ex.get(fr, x.Low).(*Term); !lt.IsConst() || lt.c != 0 {
					panic(unsupported("slicing abstract slice with non-zero low bound"))
				}
			}
			hi := a.abs.length
			if x.High != nil {
				hi = ex.tc.Resize(ex.get(fr, x.High).(*Term), 64, true)
			}
			capT := a.abs.capa
			okc := ex.tc.And(ex.tc.Bin(OpSLe, ex.tc.Const(64, 0), hi), ex.tc.Bin(OpSLe, hi, capT))
			if !ex.branch(okc, "slice-bounds") {
				ex.runtimePanic(th, "slice bounds out of range")
				return
			}
			ex.set(fr, x, sliceV{abs: &absSlice{length: hi, capa: capT, elemT: a.abs.elemT}})
			fr.pc++
			return
		}
		lo := getI(x.Low, 0)
		hi := getI(x.High, len(a.arr))
		mx := getI(x.Max, cap(a.arr))
		if lo < 0 || hi < lo || mx < hi || mx > cap(a.arr) {
			ex.runtimePanic(th, "slice bounds out of range")
			return
		}
		if a.isNil && hi == 0 {
			ex.set(fr, x, a)
		} else {
			ex.set(fr, x, sliceV{arr: a.arr[lo:hi:mx]})
		}
	case Ptr:
		if a.isNil() {
			ex.runtimePanic(th, "nil pointer dereference (slice of nil array pointer)")
			return
		}
		av := (*a.slot).(arrayV)
		lo := getI(x.Low, 0)
		hi := getI(x.High, len(av))
		mx := getI(x.Max, len(av))
		if lo < 0 || hi < lo || mx < hi || mx > len(av) {
			ex.runtimePanic(th, "slice bounds out of range")
			return
		}
		ex.set(fr, x, sliceV{arr: []Value(av)[lo:hi:mx]})
	default:
		panic(unsupported(fmt.Sprintf("Slice on %T", c)))
	}
	fr.pc++
}

// ---------------------------------------------------------------------------
// maps

// matchConds returns, per entry, the Bool term "entry present and key equal".
func (ex *Exec) matchConds(m *mapObj, k Value) []*Term {
	conds := make([]*Term, len(m.entries))
	for i, e := range m.entries {
		conds[i] = ex.tc.And(e.present, ex.eqVal(e.key, k))
	}
	return conds
}

// findEntry resolves which entry (or none: -1) matches the key, forking when
// that is not syntactically determined.
func (ex *Exec) findEntry(m *mapObj, k Value, what string) int {
	if m == nil {
		return -1
	}
	conds := ex.matchConds(m, k)
	allConst := true
	for i, c := range conds {
		if c.IsConst() {
			if c.c == 1 {
				return i
			}
		} else {
			allConst = false
		}
	}
	if allConst {
		return -1
	}
	none := ex.tc.tt
	var alts []*Term
	var idxs []int
	for i, c := range conds {
		if c.IsConst() {
			continue
		}
		alts = append(alts, c)
		idxs = append(idxs, i)
		none = ex.tc.And(none, ex.tc.Not(c))
	}
	alts = append(alts, none)
	idxs = append(idxs, -1)
	alt := ex.decide("map:"+what, len(alts), alts, true)
	return idxs[alt]
}

func (ex *Exec) lookup(th *Thread, fr *Frame, x *ssa.Lookup) {
	c := ex.get(fr, x.X)
	k := ex.get(fr, x.Index)
	if s, ok := c.(strV); ok {
		idx := k.(*Term)
		if !ex.boundsCheck(th, idx, ex.tc.Const(64, uint64(len(s.s))), "string") {
			return
		}
		i := ex.concretize(idx, "string-index")
		ex.set(fr, x, ex.tc.Const(8, uint64(s.s[i])))
		fr.pc++
		return
	}
	m := c.(*mapObj)
	valT := x.X.Type().Underlying().(*types.Map).Elem()
	var val Value
	var okT *Term
	merged := false
	if m != nil {
		// try an ite merge first (flat values only)
		conds := ex.matchConds(m, k)
		sym := false
		for _, cnd := range conds {
			if !cnd.IsConst() {
				sym = true
			}
		}
		if sym {
			var acc Value = ex.zero(valT)
			okAcc := ex.tc.ff
			good := ex.flat(acc)
			if good {
				for i := len(conds) - 1; i >= 0; i-- {
					var ok bool
					acc, ok = ex.iteVal(conds[i], m.entries[i].val, acc)
					if !ok {
						good = false
						break
					}
					okAcc = ex.tc.Or(okAcc, conds[i])
				}
			}
			if good {
				val, okT, merged = acc, okAcc, true
			}
		}
	}
	if !merged {
		i := ex.findEntry(m, k, "lookup")
		if i >= 0 {
			val, okT = copyVal(m.entries[i].val), ex.tc.tt
		} else {
			val, okT = ex.zero(valT), ex.tc.ff
		}
	}
	if x.CommaOk {
		ex.set(fr, x, tupleV{val, okT})
	} else {
		ex.set(fr, x, val)
	}
	fr.pc++
}

func (ex *Exec) mapSet(th *Thread, m *mapObj, k, v Value) bool {
	if m == nil {
		ex.runtimePanic(th, "assignment to entry in nil map")
		return false
	}
	i := ex.findEntry(m, k, "update")
	if i >= 0 {
		m.entries[i].val = copyVal(v)
		return true
	}
	m.entries = append(m.entries, &mapEntry{key: copyVal(k), val: copyVal(v), present: ex.tc.tt})
	return true
}

func (ex *Exec) mapDelete(m *mapObj, k Value) {
	if m == nil {
		return
	}
	i := ex.findEntry(m, k, "delete")
	if i >= 0 {
		m.entries = append(m.entries[:i:i], m.entries[i+1:]...)
	}
}

func (ex *Exec) mapLen(m *mapObj) int {
	if m == nil {
		return 0
	}
	return len(m.entries)
}

func (ex *Exec) mapUpdate(th *Thread, fr *Frame, x *ssa.MapUpdate) {
	m := ex.get(fr, x.Map).(*mapObj)
	if !ex.mapSet(th, m, ex.get(fr, x.Key), ex.get(fr, x.Value)) {
		return
	}
	fr.pc++
}

func (ex *Exec) rangeInit(th *Thread, fr *Frame, x *ssa.Range) {
	c := ex.get(fr, x.X)
	switch a := c.(type) {
	case strV:
		ex.set(fr, x, &rangeIter{isStr: true, str: a.s})
	case *mapObj:
		it := &rangeIter{m: a}
		if a != nil {
			it.order = append(it.order, a.entries...)
			n := len(it.order)
			if n > 1 && ex.mapOrder > 0 && ex.lenient == 0 {
				// Go's iteration order is unspecified: choose it symbolically.
				// mode 1: rotations (+reverse for n==2 is the same); mode 2: all permutations up to 3
				if ex.mapOrder >= 2 && n <= 3 {
					perms := permutations(n)
					p := perms[ex.decide("maporder", len(perms), nil, false)]
					no := make([]*mapEntry, n)
					for i, j := range p {
						no[i] = it.order[j]
					}
					it.order = no
				} else {
					r := ex.decide("maporder", n, nil, false)
					it.order = append(append([]*mapEntry{}, it.order[r:]...), it.order[:r]...)
				}
			}
		}
		ex.set(fr, x, it)
	default:
		panic(unsupported(fmt.Sprintf("Range on %T", c)))
	}
	fr.pc++
}

func permutations(n int) [][]int {
	var res [][]int
	var rec func(cur []int, used []bool)
	rec = func(cur []int, used []bool) {
		if len(cur) == n {
			res = append(res, append([]int{}, cur...))
			return
		}
		for i := 0; i < n; i++ {
			if !used[i] {
				used[i] = true
				rec(append(cur, i), used)
				used[i] = false
			}
		}
	}
	rec(nil, make([]bool, n))
	return res
}

func (ex *Exec) next(th *Thread, fr *Frame, x *ssa.Next) {
	it := ex.get(fr, x.Iter).(*rangeIter)
	tc := ex.tc
	if it.isStr {
		if it.pos >= len(it.str) {
			ex.set(fr, x, tupleV{tc.ff, tc.Const(64, 0), tc.Const(32, 0)})
		} else {
			r, sz := utf8.DecodeRuneInString(it.str[it.pos:])
			ex.set(fr, x, tupleV{tc.tt, tc.Const(64, uint64(it.pos)), tc.Const(32, uint64(r))})
			it.pos += sz
		}
		fr.pc++
		return
	}
	tup := x.Type().(*types.Tuple)
	for it.pos < len(it.order) {
		e := it.order[it.pos]
		it.pos++
		// skip entries deleted during iteration
		live := false
		for _, ce := range it.m.entries {
			if ce == e {
				live = true
			}
		}
		if !live {
			continue
		}
		ex.set(fr, x, tupleV{tc.tt, copyVal(e.key), copyVal(e.val)})
		fr.pc++
		return
	}
	var zk, zv Value
	if tup.At(1).Type() != nil {
		zk = ex.zeroOrNil(tup.At(1).Type())
	}
	zv = ex.zeroOrNil(tup.At(2).Type())
	ex.set(fr, x, tupleV{tc.ff, zk, zv})
	fr.pc++
}

func (ex *Exec) zeroOrNil(t types.Type) Value {
	if t == nil {
		return nil
	}
	if b, ok := t.(*types.Basic); ok && b.Kind() == types.Invalid {
		return nil
	}
	return ex.zero(t)
}

// ---------------------------------------------------------------------------
// type assertions

var implCache = map[string]bool{}

func (ex *Exec) implements(t types.Type, it *types.Interface) bool {
	return types.Implements(t, it)
}

func (ex *Exec) typeAssert(th *Thread, fr *Frame, x *ssa.TypeAssert) {
	v, ok := ex.get(fr, x.X).(ifaceV)
	if !ok {
		panic(unsupported(fmt.Sprintf("TypeAssert on %T", ex.get(fr, x.X))))
	}
	if v.t == ex.eng.opaqueT {
		panic(unsupported("type assertion on opaque value in " + fr.fn.String()))
	}
	var res Value
	okb := false
	if v.t != nil {
		if it, isI := x.AssertedType.Underlying().(*types.Interface); isI {
			if ex.implements(v.t, it) {
				res, okb = v, true
			}
		} else if types.Identical(v.t, x.AssertedType) {
			res, okb = copyVal(v.v), true
		}
	}
	if !okb {
		if !x.CommaOk {
			ex.goPanic(th, ifaceV{t: ex.eng.runtimeErrT, v: strV{s: "interface conversion failed"}},
				fmt.Sprintf("interface conversion: %v is not %v", v.t, x.AssertedType))
			return
		}
		res = ex.zero(x.AssertedType)
	}
	if x.CommaOk {
		ex.set(fr, x, tupleV{res, ex.tc.Bool(okb)})
	} else {
		ex.set(fr, x, res)
	}
	fr.pc++
}

package main

import (
	"fmt"
	"go/types"

	"golang.org/x/tools/go/ssa"
)

// Value is one of:
//
//	*Term      bool / integer (constant or symbolic)
//	strV       string (concrete; opaque strings may only flow to sinks)
//	floatV     concrete float64
//	structV    struct value (copied on load/store)
//	arrayV     array value (copied on load/store)
//	sliceV     slice header sharing a backing []Value
//	Ptr        pointer (to a slot, or a symbolic element of a flat array)
//	*mapObj    map
//	*chanObj   channel
//	*closure   function value
//	ifaceV     interface value (dynamic type + value); zero ifaceV is nil
//	tupleV     multiple results
//	opaqueV    result of an observability call
//	*rangeIter iterator state of Range/Next
type Value interface{}

type strV struct {
	s      string
	opaque bool
	ite    *strIte // symbolic choice between two concrete strings
	sym    []symPart // symbolic string: concatenation of literals and decimal renderings of integers
}

// symPart is a literal piece or the canonical decimal rendering of a signed 64-bit term.
type symPart struct {
	lit string
	num *Term
}

type strIte struct {
	c    *Term
	a, b string
}
type floatV float64
type structV []Value
type arrayV []Value
type tupleV []Value
type opaqueV struct{}

type sliceV struct {
	arr   []Value // len/cap carried by the Go slice header
	isNil bool
	// abstract slice (symbolic length, contents unmodelled): used by C20 only
	abs *absSlice
}

type absSlice struct {
	length *Term // int (64 bit)
	capa   *Term
	elemT  types.Type
}

type Ptr struct {
	slot *Value
	// symbolic element pointer into a flat array
	symArr []Value
	symIdx *Term
	// pointer into an abstract slice
	abs    *absSlice
	absIdx *Term
}

func (p Ptr) isNil() bool { return p.slot == nil && p.symArr == nil && p.abs == nil }

type ifaceV struct {
	t types.Type
	v Value
}

type closure struct {
	fn    *ssa.Function
	env   []Value
	intr  string // non-empty: an intrinsic referenced as a value
	bound []Value
}

type mapEntry struct {
	key     Value
	val     Value
	present *Term // Bool
}

type mapObj struct {
	entries []*mapEntry
	keyT    types.Type
	valT    types.Type
	id      int
}

type chanObj struct {
	id     int
	capa   int
	buf    []Value
	closed bool
	elemT  types.Type
}

type rangeIter struct {
	m     *mapObj
	order []*mapEntry
	pos   int
	str   string
	isStr bool
}

func copyVal(v Value) Value {
	switch x := v.(type) {
	case structV:
		n := make(structV, len(x))
		for i, f := range x {
			n[i] = copyVal(f)
		}
		return n
	case arrayV:
		n := make(arrayV, len(x))
		for i, f := range x {
			n[i] = copyVal(f)
		}
		return n
	}
	return v
}

func intWidth(b *types.Basic) (w int, signed bool, ok bool) {
	switch b.Kind() {
	case types.Bool, types.UntypedBool:
		return 0, false, true
	case types.Int8:
		return 8, true, true
	case types.Int16:
		return 16, true, true
	case types.Int32, types.UntypedRune:
		return 32, true, true
	case types.Int, types.Int64, types.UntypedInt:
		return 64, true, true
	case types.Uint8:
		return 8, false, true
	case types.Uint16:
		return 16, false, true
	case types.Uint32:
		return 32, false, true
	case types.Uint, types.Uint64, types.Uintptr:
		return 64, false, true
	}
	return 0, false, false
}

func isSigned(t types.Type) bool {
	if b, ok := t.Underlying().(*types.Basic); ok {
		_, s, _ := intWidth(b)
		return s
	}
	return false
}

func (ex *Exec) zero(t types.Type) Value {
	switch u := t.Underlying().(type) {
	case *types.Basic:
		if w, _, ok := intWidth(u); ok {
			return ex.tc.Const(w, 0)
		}
		switch u.Kind() {
		case types.String, types.UntypedString:
			return strV{}
		case types.Float32, types.Float64, types.UntypedFloat:
			return floatV(0)
		case types.UnsafePointer:
			return Ptr{}
		case types.UntypedNil:
			return nil
		case types.Complex64, types.Complex128:
			return floatV(0)
		}
		panic(unsupported("zero of basic " + u.String()))
	case *types.Pointer:
		return Ptr{}
	case *types.Slice:
		return sliceV{isNil: true}
	case *types.Map:
		return (*mapObj)(nil)
	case *types.Chan:
		return (*chanObj)(nil)
	case *types.Signature:
		return (*closure)(nil)
	case *types.Interface:
		return ifaceV{}
	case *types.Struct:
		s := make(structV, u.NumFields())
		for i := range s {
			s[i] = ex.zero(u.Field(i).Type())
		}
		return s
	case *types.Array:
		n := int(u.Len())
		if n > 1<<16 {
			panic(unsupported("huge array"))
		}
		a := make(arrayV, n)
		for i := range a {
			a[i] = ex.zero(u.Elem())
		}
		return a
	case *types.Tuple:
		tv := make(tupleV, u.Len())
		for i := range tv {
			tv[i] = ex.zero(u.At(i).Type())
		}
		return tv
	}
	panic(unsupported(fmt.Sprintf("zero of %T %s", t.Underlying(), t)))
}

// store writes v into the slot, in place for aggregates so that pointers to
// fields/elements taken earlier stay valid.
func storeSlot(slot *Value, v Value) {
	switch cur := (*slot).(type) {
	case structV:
		if nv, ok := v.(structV); ok && len(nv) == len(cur) {
			for i := range cur {
				storeSlot(&cur[i], nv[i])
			}
			return
		}
	case arrayV:
		if nv, ok := v.(arrayV); ok && len(nv) == len(cur) {
			for i := range cur {
				storeSlot(&cur[i], nv[i])
			}
			return
		}
	}
	*slot = copyVal(v)
}

// mergeable reports whether values of this shape can be combined by ite.
func (ex *Exec) iteVal(c *Term, a, b Value) (Value, bool) {
	if c.IsConst() {
		if c.c == 1 {
			return a, true
		}
		return b, true
	}
	switch x := a.(type) {
	case *Term:
		y, ok := b.(*Term)
		if !ok || x.w != y.w {
			return nil, false
		}
		return ex.tc.Ite(c, x, y), true
	case strV:
		y, ok := b.(strV)
		if ok && x.sym == nil && y.sym == nil && x.s == y.s && x.opaque == y.opaque && x.ite == y.ite {
			return x, true
		}
		if ok && x.sym == nil && y.sym == nil && !x.opaque && !y.opaque && x.ite == nil && y.ite == nil {
			return strV{ite: &strIte{c: c, a: x.s, b: y.s}}, true
		}
		return nil, false
	case floatV:
		y, ok := b.(floatV)
		if ok && x == y {
			return x, true
		}
		return nil, false
	case structV:
		y, ok := b.(structV)
		if !ok || len(x) != len(y) {
			return nil, false
		}
		n := make(structV, len(x))
		for i := range x {
			m, ok := ex.iteVal(c, x[i], y[i])
			if !ok {
				return nil, false
			}
			n[i] = m
		}
		return n, true
	case arrayV:
		y, ok := b.(arrayV)
		if !ok || len(x) != len(y) {
			return nil, false
		}
		n := make(arrayV, len(x))
		for i := range x {
			m, ok := ex.iteVal(c, x[i], y[i])
			if !ok {
				return nil, false
			}
			n[i] = m
		}
		return n, true
	case Ptr:
		y, ok := b.(Ptr)
		if ok && x.slot == y.slot && x.symArr == nil && y.symArr == nil && x.abs == nil && y.abs == nil {
			return x, true
		}
		return nil, false
	case *chanObj:
		if y, ok := b.(*chanObj); ok && x == y {
			return x, true
		}
		return nil, false
	case *mapObj:
		if y, ok := b.(*mapObj); ok && x == y {
			return x, true
		}
		return nil, false
	case sliceV:
		y, ok := b.(sliceV)
		if ok && x.isNil && y.isNil {
			return x, true
		}
		return nil, false
	case ifaceV:
		y, ok := b.(ifaceV)
		if ok && x.t == nil && y.t == nil {
			return x, true
		}
		if ok && x.t != nil && y.t != nil && types.Identical(x.t, y.t) {
			m, ok := ex.iteVal(c, x.v, y.v)
			if ok {
				return ifaceV{x.t, m}, true
			}
		}
		return nil, false
	case nil:
		if b == nil {
			return nil, true
		}
	case opaqueV:
		return a, true
	}
	return nil, false
}

// eqVal builds the Bool term for a == b following Go's comparison rules.
func (ex *Exec) eqVal(a, b Value) *Term {
	tc := ex.tc
	switch x := a.(type) {
	case *Term:
		y, ok := b.(*Term)
		if !ok {
			return tc.ff
		}
		if x.w != y.w {
			panic(unsupported("eq width mismatch"))
		}
		return tc.Eq(x, y)
	case strV:
		y, ok := b.(strV)
		if !ok {
			return tc.ff
		}
		if x.opaque || y.opaque {
			panic(unsupported("comparison of opaque string"))
		}
		if x.sym != nil || y.sym != nil {
			return ex.eqSymStr(x, y)
		}
		if x.ite != nil || y.ite != nil {
			xa, xb, xc := x.s, x.s, tc.tt
			if x.ite != nil {
				xa, xb, xc = x.ite.a, x.ite.b, x.ite.c
			}
			ya, yb, yc := y.s, y.s, tc.tt
			if y.ite != nil {
				ya, yb, yc = y.ite.a, y.ite.b, y.ite.c
			}
			r := tc.ff
			r = tc.Or(r, tc.And(tc.And(xc, yc), tc.Bool(xa == ya)))
			r = tc.Or(r, tc.And(tc.And(xc, tc.Not(yc)), tc.Bool(xa == yb)))
			r = tc.Or(r, tc.And(tc.And(tc.Not(xc), yc), tc.Bool(xb == ya)))
			r = tc.Or(r, tc.And(tc.And(tc.Not(xc), tc.Not(yc)), tc.Bool(xb == yb)))
			return r
		}
		return tc.Bool(x.s == y.s)
	case floatV:
		y, _ := b.(floatV)
		return tc.Bool(x == y)
	case structV:
		y, ok := b.(structV)
		if !ok || len(x) != len(y) {
			return tc.ff
		}
		r := tc.tt
		for i := range x {
			r = tc.And(r, ex.eqVal(x[i], y[i]))
		}
		return r
	case arrayV:
		y, ok := b.(arrayV)
		if !ok || len(x) != len(y) {
			return tc.ff
		}
		r := tc.tt
		for i := range x {
			r = tc.And(r, ex.eqVal(x[i], y[i]))
		}
		return r
	case Ptr:
		y, ok := b.(Ptr)
		if !ok {
			if b == nil {
				return tc.Bool(x.isNil())
			}
			return tc.ff
		}
		if x.symArr != nil || y.symArr != nil || x.abs != nil || y.abs != nil {
			panic(unsupported("comparison of symbolic element pointers"))
		}
		return tc.Bool(x.slot == y.slot)
	case *chanObj:
		y, _ := b.(*chanObj)
		return tc.Bool(x == y)
	case *mapObj:
		y, _ := b.(*mapObj)
		return tc.Bool(x == y) // only comparison with nil is legal
	case *closure:
		y, _ := b.(*closure)
		return tc.Bool(x == y)
	case sliceV:
		y, _ := b.(sliceV)
		return tc.Bool(x.isNil && y.isNil)
	case ifaceV:
		y, ok := b.(ifaceV)
		if !ok {
			return tc.Bool(x.t == nil && b == nil)
		}
		if x.t == nil || y.t == nil {
			return tc.Bool(x.t == nil && y.t == nil)
		}
		if !types.Identical(x.t, y.t) {
			return tc.ff
		}
		return ex.eqVal(x.v, y.v)
	case nil:
		switch y := b.(type) {
		case nil:
			return tc.tt
		case ifaceV:
			return tc.Bool(y.t == nil)
		case Ptr:
			return tc.Bool(y.isNil())
		}
		return tc.ff
	case opaqueV:
		panic(unsupported("comparison of opaque value"))
	}
	panic(unsupported(fmt.Sprintf("eqVal on %T", a)))
}

type unsupportedErr struct{ msg string }

func unsupported(msg string) unsupportedErr { return unsupportedErr{msg} }

package main

import (
	"fmt"
	"go/types"
	"os"
	"path/filepath"
	"runtime/debug"
	"sort"
	"strings"
	"sync"
	"time"

	"golang.org/x/tools/go/packages"
	"golang.org/x/tools/go/ssa"
	"golang.org/x/tools/go/ssa/ssautil"
)

type Engine struct {
	prog      *ssa.Program
	pkg       *ssa.Package
	intrCache sync.Map
	extraNoop []string
	interpret []string // prefixes exempt from the observability no-op treatment (per entry)
	redirect  map[string]string
	params    map[string]int64

	maxDepth      int
	maxSteps      int
	maxConcretize int
	maxPaths      int
	maxVisits     int
	deadline      time.Time
	solverBin     []string
	solverFresh   bool
	solverInt     bool
	solver2Bin    []string
	Solver2Checks int
	Solver2Time   time.Duration
	stopOnViol    int
	maxSamples    int
	doneSeen      int
	sampled       int

	runtimeErrT     types.Type
	opaqueT         types.Type
	errorStringPtrT types.Type
	wrapErrorPtrT   types.Type
	valueCtxPtrT    types.Type
	errorIface      *types.Interface
	timeT           types.Type
	tickerT         types.Type
	timerT          types.Type

	mu       sync.Mutex
	cond     *sync.Cond
	queue    [][]int
	active   int
	stopped  bool
	stopWhy  string
	reachSet map[string]bool

	// aggregated results
	res *RunResult
}

type RunResult struct {
	Paths       int
	Ends        map[string]int
	Decisions   int
	Steps       int64
	Asserts     int
	Queries     int
	SolverTime  time.Duration
	Unknowns    int
	Violations  []*Violation
	Unsupported map[string]int
	Bounds      map[string]int
	Reached     map[string]bool
	Stubs       map[string]bool
	Funcs       map[string]bool
	Assumes     map[string]bool
	SolverErrs  []string
	Samples     []PathSample
	Cfg         map[string]int64
	MaxDepth    int
	Truncated   string
}

type PathSample struct {
	Decisions []Decision `json:"decisions"`
	Actions   []string   `json:"actions,omitempty"`
	Observes  []string   `json:"observes,omitempty"`
	End       string     `json:"end"`
	Nondets   int        `json:"nondets"`
	Values    []NondetVal `json:"values,omitempty"` // a satisfying assignment of the path condition (witness)
}

type Worker struct {
	eng         *Engine
	sol         *Solver
	sol2        *Solver // second solver (thorough tier): every unsat of an assertion query is re-asked
	retry       *Solver // started on the first "unknown": z3 5.1.0 from scratch with a 10-minute limit
	solverFresh bool
}

// retrySolver: a query the primary solver gave up on (its per-query time limit, typically on a loaded
// machine) is asked once more of z3 5.1.0, from scratch, with a longer limit.
func (w *Worker) retrySolver() *Solver {
	if w.retry == nil {
		s, err := newSolver([]string{"z3-new", "-in", "-t:600000"})
		if err != nil {
			return nil
		}
		s.Fresh = true
		s.IntMode = w.eng.solverInt
		w.retry = s
	}
	return w.retry
}

func (e *Engine) skipInit(path string) bool {
	switch {
	case path == "runtime", path == "unsafe", path == "reflect", path == "os", path == "syscall", path == "net",
		strings.HasPrefix(path, "internal/"), strings.HasPrefix(path, "runtime/"),
		strings.HasPrefix(path, "google.golang.org/protobuf"),
		strings.HasPrefix(path, "google.golang.org/grpc/internal"),
		strings.HasPrefix(path, "github.com/prometheus"),
		strings.HasPrefix(path, "crypto/"), strings.HasPrefix(path, "net/"),
		strings.HasPrefix(path, "golang.org/x/"), strings.HasPrefix(path, "go.opentelemetry.io"):
		return true
	}
	return false
}

// wantSample: the first few completed paths of an exploration, then every 997th, up to a cap.
func (e *Engine) wantSample() bool {
	e.mu.Lock()
	defer e.mu.Unlock()
	e.doneSeen++
	if e.sampled >= e.maxSamples {
		return false
	}
	if e.doneSeen <= 2 || e.doneSeen%997 == 0 {
		e.sampled++
		return true
	}
	return false
}

func (e *Engine) reachKnown(l string) bool {
	e.mu.Lock()
	defer e.mu.Unlock()
	return e.reachSet[l]
}

// load builds SSA for the package at pkgPattern (relative to dir) with the
// given overlay files injected.
func load(dir string, pattern string, overlay map[string][]byte) (*ssa.Program, *ssa.Package, error) {
	os.Setenv("PATH", "/opt/veriftools/go1.26.8/bin:"+os.Getenv("PATH"))
	os.Setenv("GOTOOLCHAIN", "local")
	os.Setenv("GOFLAGS", "-mod=mod")
	os.Setenv("GOPROXY", "off")
	cfg := &packages.Config{
		Mode:    packages.LoadAllSyntax,
		Dir:     dir,
		Overlay: overlay,
		Env: append(os.Environ(), "GOFLAGS=-mod=mod", "GOPROXY=off", "GOTOOLCHAIN=local",
			"PATH=/opt/veriftools/go1.26.8/bin:"+os.Getenv("PATH")),
	}
	pkgs, err := packages.Load(cfg, pattern)
	if err != nil {
		return nil, nil, err
	}
	if len(pkgs) != 1 {
		return nil, nil, fmt.Errorf("expected one package, got %d", len(pkgs))
	}
	var errs []string
	packages.Visit(pkgs, nil, func(p *packages.Package) {
		for _, e := range p.Errors {
			errs = append(errs, e.Error())
		}
	})
	if len(errs) > 0 {
		if len(errs) > 10 {
			errs = errs[:10]
		}
		return nil, nil, fmt.Errorf("load errors:\n%s", strings.Join(errs, "\n"))
	}
	prog, spkgs := ssautil.AllPackages(pkgs, ssa.InstantiateGenerics)
	prog.Build()
	return prog, spkgs[0], nil
}

func (e *Engine) setupTypes() error {
	look := func(pkg, name string) (types.Type, error) {
		p := e.prog.ImportedPackage(pkg)
		if p == nil {
			return nil, fmt.Errorf("package %s not loaded", pkg)
		}
		o := p.Pkg.Scope().Lookup(name)
		if o == nil {
			return nil, fmt.Errorf("%s.%s not found", pkg, name)
		}
		return o.Type(), nil
	}
	opt := func(pkg, name string) types.Type {
		t, err := look(pkg, name)
		if err != nil {
			return types.NewNamed(types.NewTypeName(0, nil, "missing_"+name, nil), types.NewStruct(nil, nil), nil)
		}
		return t
	}
	e.errorStringPtrT = types.NewPointer(opt("errors", "errorString"))
	e.wrapErrorPtrT = types.NewPointer(opt("fmt", "wrapError"))
	e.valueCtxPtrT = types.NewPointer(opt("context", "valueCtx"))
	e.timeT = opt("time", "Time")
	e.tickerT = opt("time", "Ticker")
	e.timerT = opt("time", "Timer")
	e.errorIface = types.Universe.Lookup("error").Type().Underlying().(*types.Interface)
	e.runtimeErrT = types.NewNamed(types.NewTypeName(0, nil, "runtimeError", nil), types.Typ[types.String], nil)
	e.opaqueT = types.NewNamed(types.NewTypeName(0, nil, "verifOpaque", nil), types.NewStruct(nil, nil), nil)
	return nil
}

// explore runs the harness function over all decision prefixes.
func (e *Engine) explore(harness *ssa.Function, workers int) *RunResult {
	e.cond = sync.NewCond(&e.mu)
	e.queue = [][]int{{}}
	e.reachSet = map[string]bool{}
	e.res = &RunResult{Ends: map[string]int{}, Unsupported: map[string]int{}, Bounds: map[string]int{},
		Reached: e.reachSet, Stubs: map[string]bool{}, Funcs: map[string]bool{}, Assumes: map[string]bool{}, Cfg: map[string]int64{}}
	var wg sync.WaitGroup
	for i := 0; i < workers; i++ {
		sol, err := newSolver(e.solverBin)
		if err != nil {
			fmt.Fprintln(os.Stderr, "cannot start solver:", err)
			os.Exit(2)
		}
		if lp := os.Getenv("GOSX_SMTLOG"); lp != "" && i == 0 {
			f, _ := os.Create(lp)
			sol.log = f
		}
		sol.Fresh = e.solverFresh
		sol.IntMode = e.solverInt
		var sol2 *Solver
		if e.solver2Bin != nil {
			sol2, err = newSolver(e.solver2Bin)
			if err != nil {
				fmt.Fprintln(os.Stderr, "cannot start second solver:", err)
				os.Exit(2)
			}
			sol2.Fresh = true
			sol2.IntMode = e.solverInt
		}
		w := &Worker{eng: e, sol: sol, sol2: sol2}
		wg.Add(1)
		go func() {
			defer wg.Done()
			defer w.sol.Close()
			defer func() {
				if w.retry != nil {
					w.retry.Close()
				}
			}()
			w.loop(harness)
			e.mu.Lock()
			e.res.Queries += w.sol.Queries
			e.res.SolverTime += w.sol.Time
			e.res.SolverErrs = append(e.res.SolverErrs, w.sol.Errors...)
			if w.sol2 != nil {
				e.Solver2Checks += w.sol2.Queries
				e.Solver2Time += w.sol2.Time
				e.res.SolverErrs = append(e.res.SolverErrs, w.sol2.Errors...)
				w.sol2.Close()
			}
			e.mu.Unlock()
		}()
	}
	wg.Wait()
	return e.res
}

func (w *Worker) loop(harness *ssa.Function) {
	e := w.eng
	for {
		e.mu.Lock()
		for len(e.queue) == 0 && e.active > 0 && !e.stopped {
			e.cond.Wait()
		}
		if e.stopped || (len(e.queue) == 0 && e.active == 0) {
			e.mu.Unlock()
			e.cond.Broadcast()
			return
		}
		prefix := e.queue[len(e.queue)-1]
		e.queue = e.queue[:len(e.queue)-1]
		e.active++
		e.mu.Unlock()

		ex, end := w.runPath(harness, prefix)

		e.mu.Lock()
		e.active--
		r := e.res
		r.Paths++
		r.Ends[end.kind]++
		r.Decisions += len(ex.decisions) - len(prefix)
		if len(ex.decisions) > r.MaxDepth {
			r.MaxDepth = len(ex.decisions)
		}
		r.Steps += int64(ex.steps)
		r.Asserts += ex.asserts
		r.Unknowns += ex.unknowns
		for k := range ex.reached {
			e.reachSet[k] = true
		}
		for k := range ex.stubsHit {
			r.Stubs[k] = true
		}
		for k := range ex.assumes {
			r.Assumes[k] = true
		}
		for k, v := range ex.cfg {
			r.Cfg[k] = v
		}
		for f := range ex.funcsHit {
			r.Funcs[f.String()] = true
		}
		switch end.kind {
		case "unsupported":
			r.Unsupported[end.msg]++
		case "bound":
			r.Bounds[end.msg]++
		case "violation":
			if ex.violation != nil {
				r.Violations = append(r.Violations, ex.violation)
				if e.stopOnViol > 0 && len(r.Violations) >= e.stopOnViol {
					e.stopped = true
					e.stopWhy = "violation limit"
				}
			}
		}
		if ex.sample != nil {
			r.Samples = append(r.Samples, *ex.sample)
		}
		e.queue = append(e.queue, ex.newPrefix...)
		if r.Paths >= e.maxPaths && !e.stopped {
			e.stopped = true
			e.stopWhy = "path budget"
			r.Truncated = fmt.Sprintf("path budget %d reached with %d prefixes pending", e.maxPaths, len(e.queue))
		}
		if !e.deadline.IsZero() && time.Now().After(e.deadline) && !e.stopped {
			e.stopped = true
			e.stopWhy = "time budget"
			r.Truncated = fmt.Sprintf("time budget reached with %d prefixes pending", len(e.queue))
		}
		e.mu.Unlock()
		e.cond.Broadcast()
	}
}

func (w *Worker) runPath(harness *ssa.Function, prefix []int) (ex *Exec, end pathEnd) {
	e := w.eng
	ex = &Exec{eng: e, w: w, tc: newTermCtx(), sol: w.sol, prefix: prefix,
		globals: map[*ssa.Global]*Value{}, initDone: map[*ssa.Package]bool{},
		mutexes: map[*Value]*mutexState{}, wgs: map[*Value]*wgState{}, syncMaps: map[*Value]*mapObj{},
		reached: map[string]bool{}, assumes: map[string]bool{}, hashSyms: map[string]*Term{}, wfShard: map[string]int{},
		errCodes: map[*Value]int{}, stubsHit: map[string]bool{}, funcsHit: map[*ssa.Function]bool{},
		tracked: map[string]Value{}, cfg: map[string]int64{}, posHits: map[string]int{},
		maxVisits: e.maxVisits, clock: 1600000000 * 1e9}
	w.solverFresh = true
	defer func() {
		if r := recover(); r != nil {
			switch x := r.(type) {
			case pathEnd:
				end = x
			case unsupportedErr:
				end = pathEnd{kind: "unsupported", msg: x.msg + ex.where()}
			default:
				end = pathEnd{kind: "unsupported", msg: fmt.Sprintf("engine panic: %v%s\n%s", r, ex.where(), trimStack(debug.Stack()))}
			}
		}
		if end.kind == "violation" {
			func() {
				defer func() {
					if r := recover(); r != nil {
						end = pathEnd{kind: "unsupported", msg: fmt.Sprintf("engine panic in finishViolation: %v", r)}
					}
				}()
				ex.finishViolation()
			}()
			if ex.violation == nil {
				end = pathEnd{kind: "infeasible"}
			}
		}
	}()
	th := ex.newThread("harness")
	ex.pushFrame(th, harness, nil, nil, nil)
	ex.cur = th
	ex.mainLoop()
	// sample a few completed paths: solve the path condition for a witness so the path can be
	// replayed natively and its observations compared (translator validation)
	if e.wantSample() {
		ex.flushPC()
		if r := ex.sol.Check(ex.tc, ex.tc.tt, true); r == Sat {
			var ts []*Term
			for _, n := range ex.nondets {
				ts = append(ts, n.T)
			}
			vals := ex.sol.Values(ex.tc, ts)
			m := map[string]uint64{}
			ps := &PathSample{Decisions: ex.decisions, Actions: ex.actions, End: "done", Nondets: len(ex.nondets)}
			for _, n := range ex.nondets {
				m[n.T.name] = vals[n.T.id]
				ps.Values = append(ps.Values, NondetVal{Label: n.Label, Val: vals[n.T.id], W: n.T.w})
			}
			ps.Observes = ex.renderObserves(m)
			ex.sample = ps
		}
		ex.sol.PopScope()
	}
	return ex, pathEnd{kind: "done"}
}

func trimStack(b []byte) string {
	lines := strings.Split(string(b), "\n")
	var out []string
	for _, l := range lines {
		if strings.Contains(l, "verif/gosx") || strings.Contains(l, "/engine/") {
			out = append(out, strings.TrimSpace(l))
		}
		if len(out) > 14 {
			break
		}
	}
	return strings.Join(out, " | ")
}

func (ex *Exec) where() string {
	if ex.cur == nil || len(ex.cur.frames) == 0 {
		return ""
	}
	fr := ex.cur.frames[len(ex.cur.frames)-1]
	pos := ""
	if fr.pc < len(fr.block.Instrs) {
		in := fr.block.Instrs[fr.pc]
		p := ex.eng.prog.Fset.Position(in.Pos())
		if p.IsValid() {
			pos = fmt.Sprintf(" %s:%d", filepath.Base(p.Filename), p.Line)
		}
		pos += fmt.Sprintf(" [%s]", in)
	}
	stack := ""
	fs := ex.cur.frames
	for i := len(fs) - 2; i >= 0 && i >= len(fs)-7; i-- {
		stack += " < " + fs[i].fn.String()
	}
	return fmt.Sprintf(" @ %s%s%s", fr.fn, pos, stack)
}

func sortedSet(m map[string]bool) []string {
	var ks []string
	for k := range m {
		ks = append(ks, k)
	}
	sort.Strings(ks)
	return ks
}

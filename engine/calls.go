package main

import (
	"fmt"
	"go/types"
	"strings"

	"golang.org/x/tools/go/ssa"
)

// resolveCall evaluates callee and arguments of a call site. The callee is
// returned as a closure (fn+env, or an intrinsic name).
func (ex *Exec) resolveCall(th *Thread, fr *Frame, c *ssa.CallCommon) (*closure, []Value) {
	args := make([]Value, 0, len(c.Args)+1)
	if c.IsInvoke() {
		recv, ok := ex.get(fr, c.Value).(ifaceV)
		if !ok {
			panic(unsupported(fmt.Sprintf("invoke on %T", ex.get(fr, c.Value))))
		}
		for _, a := range c.Args {
			args = append(args, ex.get(fr, a))
		}
		if recv.t == nil {
			ex.runtimePanic(th, "invalid memory address or nil pointer dereference (nil interface method call "+c.Method.Name()+")")
			return nil, nil
		}
		if recv.t == ex.eng.opaqueT {
			return &closure{intr: "opaque-method", bound: []Value{sigBox{c.Signature()}}}, nil
		}
		fn := ex.eng.prog.LookupMethod(recv.t, c.Method.Pkg(), c.Method.Name())
		if fn == nil {
			panic(unsupported(fmt.Sprintf("method %s not found on %s", c.Method.Name(), recv.t)))
		}
		args = append([]Value{recv.v}, args...)
		return ex.closureFor(fn, nil), args
	}
	for _, a := range c.Args {
		args = append(args, ex.get(fr, a))
	}
	switch v := c.Value.(type) {
	case *ssa.Builtin:
		return &closure{intr: "builtin:" + v.Name(), bound: []Value{sigBox{c.Signature()}, typesBox{argTypes(c)}}}, args
	case *ssa.Function:
		return ex.closureFor(v, nil), args
	}
	cv := ex.get(fr, c.Value)
	cl, ok := cv.(*closure)
	if !ok {
		panic(unsupported(fmt.Sprintf("call of %T", cv)))
	}
	if cl == nil {
		ex.runtimePanic(th, "invalid memory address or nil pointer dereference (nil func call)")
		return nil, nil
	}
	if cl.fn != nil {
		return ex.closureFor(cl.fn, cl.env), args
	}
	return cl, args
}

type sigBox struct{ sig *types.Signature }
type typesBox struct{ ts []types.Type }

func argTypes(c *ssa.CallCommon) []types.Type {
	var ts []types.Type
	for _, a := range c.Args {
		ts = append(ts, a.Type())
	}
	return ts
}

// closureFor maps a static callee to either itself or an intrinsic.
func (ex *Exec) closureFor(fn *ssa.Function, env []Value) *closure {
	name := ex.eng.intrinsicName(fn)
	if name != "" {
		return &closure{intr: name, env: env, fn: nil, bound: []Value{fnBox{fn}}}
	}
	return &closure{fn: fn, env: env}
}

type fnBox struct{ fn *ssa.Function }

func (ex *Exec) doCall(th *Thread, fr *Frame, c *ssa.CallCommon, site *ssa.Call) {
	callee, args := ex.resolveCall(th, fr, c)
	if callee == nil {
		return // panicking
	}
	if callee.intr != "" {
		a := args
		ex.curSite = site
		res, blocked := ex.callIntrinsic(th, callee.intr, append(append([]Value{}, callee.bound...), a...), site)
		if blocked {
			return
		}
		if fr.unwinding || th.state == tDone {
			return
		}
		// an intrinsic may have pushed a frame (callback); then it returns via retTo
		if len(th.frames) > 0 && th.frames[len(th.frames)-1] != fr {
			return
		}
		ex.set(fr, site, res)
		fr.pc++
		return
	}
	if ex.lenient > 0 && callee.fn.Name() == "init" && callee.fn.Signature.Recv() == nil && callee.fn.Pkg != nil && callee.fn.Pkg != fr.fn.Pkg {
		// package initializers of imports run lazily, when one of their own globals is touched
		fr.pc++
		return
	}
	ex.pushFrame(th, callee.fn, args, callee.env, site)
}

// ---------------------------------------------------------------------------
// builtins

func (ex *Exec) builtin(th *Thread, name string, args []Value, sig *types.Signature, ats []types.Type) Value {
	tc := ex.tc
	switch name {
	case "len":
		switch a := args[0].(type) {
		case strV:
			if a.opaque {
				panic(unsupported("len(opaque string)"))
			}
			return tc.Const(64, uint64(len(a.s)))
		case sliceV:
			if a.abs != nil {
				return a.abs.length
			}
			return tc.Const(64, uint64(len(a.arr)))
		case arrayV:
			return tc.Const(64, uint64(len(a)))
		case *mapObj:
			return tc.Const(64, uint64(ex.mapLen(a)))
		case *chanObj:
			if a == nil {
				return tc.Const(64, 0)
			}
			return tc.Const(64, uint64(len(a.buf)))
		case Ptr:
			if a.isNil() {
				return tc.Const(64, uint64(ats[0].Underlying().(*types.Pointer).Elem().Underlying().(*types.Array).Len()))
			}
			return tc.Const(64, uint64(len((*a.slot).(arrayV))))
		}
	case "cap":
		switch a := args[0].(type) {
		case sliceV:
			if a.abs != nil {
				return a.abs.capa
			}
			return tc.Const(64, uint64(cap(a.arr)))
		case arrayV:
			return tc.Const(64, uint64(len(a)))
		case *chanObj:
			if a == nil {
				return tc.Const(64, 0)
			}
			return tc.Const(64, uint64(a.capa))
		}
	case "append":
		s := args[0].(sliceV)
		switch t := args[1].(type) {
		case sliceV:
			if s.abs != nil || t.abs != nil {
				panic(unsupported("append on abstract slice"))
			}
			if len(t.arr) == 0 {
				return s
			}
			n := len(s.arr) + len(t.arr)
			var arr []Value
			if n <= cap(s.arr) {
				arr = s.arr[:n]
			} else {
				nc := 2 * cap(s.arr)
				if nc < n {
					nc = n
				}
				arr = make([]Value, n, nc)
				copy(arr, s.arr)
				et := ats[0].Underlying().(*types.Slice).Elem()
				full := arr[:nc]
				for i := n; i < nc; i++ {
					full[i] = ex.zero(et)
				}
			}
			for i, e := range t.arr {
				arr[len(s.arr)+i] = copyVal(e)
			}
			return sliceV{arr: arr}
		case strV:
			var arr []Value
			arr = append(arr, s.arr...)
			for i := 0; i < len(t.s); i++ {
				arr = append(arr, tc.Const(8, uint64(t.s[i])))
			}
			return sliceV{arr: arr}
		}
	case "copy":
		d := args[0].(sliceV)
		n := 0
		switch s := args[1].(type) {
		case sliceV:
			n = len(d.arr)
			if len(s.arr) < n {
				n = len(s.arr)
			}
			tmp := make([]Value, n)
			for i := 0; i < n; i++ {
				tmp[i] = copyVal(s.arr[i])
			}
			for i := 0; i < n; i++ {
				storeSlot(&d.arr[i], tmp[i])
			}
		case strV:
			n = len(d.arr)
			if len(s.s) < n {
				n = len(s.s)
			}
			for i := 0; i < n; i++ {
				d.arr[i] = tc.Const(8, uint64(s.s[i]))
			}
		}
		return tc.Const(64, uint64(n))
	case "close":
		ch, _ := args[0].(*chanObj)
		ex.closeChan(th, ch)
		return nil
	case "delete":
		m, _ := args[0].(*mapObj)
		ex.mapDelete(m, args[1])
		return nil
	case "print", "println":
		return nil
	case "recover":
		// valid only when called directly by a deferred function while panicking
		if th.panicking && len(th.frames) >= 2 {
			top := th.frames[len(th.frames)-1]
			below := th.frames[len(th.frames)-2]
			if top.asDefer && below.unwinding {
				th.panicking = false
				v := th.panicVal
				th.panicVal = nil
				if v == nil {
					return ifaceV{}
				}
				return v
			}
		}
		return ifaceV{}
	case "min", "max":
		acc := args[0]
		for _, b := range args[1:] {
			x, ok1 := acc.(*Term)
			y, ok2 := b.(*Term)
			if !ok1 || !ok2 {
				panic(unsupported("min/max on non-integers"))
			}
			var lt *Term
			if isSigned(ats[0]) {
				lt = tc.Bin(OpSLt, x, y)
			} else {
				lt = tc.Bin(OpULt, x, y)
			}
			if name == "min" {
				acc = tc.Ite(lt, x, y)
			} else {
				acc = tc.Ite(lt, y, x)
			}
		}
		return acc
	case "clear":
		switch a := args[0].(type) {
		case *mapObj:
			if a != nil {
				a.entries = nil
			}
		case sliceV:
			et := ats[0].Underlying().(*types.Slice).Elem()
			for i := range a.arr {
				storeSlot(&a.arr[i], ex.zero(et))
			}
		}
		return nil
	case "ssa:wrapnilchk":
		p, ok := args[0].(Ptr)
		if ok && p.isNil() {
			ex.runtimePanic(th, "value method called using nil pointer")
			return nil
		}
		return args[0]
	}
	panic(unsupported("builtin " + name + fmt.Sprintf(" on %T", args[0])))
}

// ---------------------------------------------------------------------------
// intrinsic classification

func (e *Engine) intrinsicName(fn *ssa.Function) string {
	if v, ok := e.intrCache.Load(fn); ok {
		return v.(string)
	}
	name := e.classify(fn)
	e.intrCache.Store(fn, name)
	return name
}

func fnKey(fn *ssa.Function) string {
	if o := fn.Origin(); o != nil {
		fn = o
	}
	return fn.String()
}

func (e *Engine) classify(fn *ssa.Function) string {
	key := fnKey(fn)
	if strings.HasPrefix(fn.Name(), "verif") && fn.Pkg != nil && fn.Signature.Recv() == nil {
		if _, ok := verifAPI[fn.Name()]; ok {
			return "verif:" + fn.Name()
		}
		if strings.HasPrefix(fn.Name(), "verifAbstractSlice") {
			return "verif:verifAbstractSlice"
		}
	}
	if tgt, ok := e.redirect[key]; ok {
		return "redirect:" + tgt
	}
	if _, ok := intrinsics[key]; ok {
		return key
	}
	pkgPath := ""
	if fn.Pkg != nil {
		pkgPath = fn.Pkg.Pkg.Path()
	} else if o := fn.Origin(); o != nil && o.Pkg != nil {
		pkgPath = o.Pkg.Pkg.Path()
	} else if fn.Signature.Recv() != nil {
		// wrapper / bound method thunk: classify by receiver's package
		if n := namedOf(fn.Signature.Recv().Type()); n != nil && n.Obj().Pkg() != nil {
			pkgPath = n.Obj().Pkg().Path()
		}
	}
	for _, p := range e.interpret {
		if strings.HasPrefix(key, p) {
			return "" // this entry wants the real code, not the observability no-op
		}
	}
	for _, p := range noopPkgs {
		if pkgPath == p || strings.HasPrefix(pkgPath, p+"/") {
			return "noop"
		}
	}
	for _, p := range noopFuncPrefixes {
		if strings.HasPrefix(key, p) {
			return "noop"
		}
	}
	if e.extraNoop != nil {
		for _, p := range e.extraNoop {
			if strings.HasPrefix(key, p) {
				return "noop"
			}
		}
	}
	return ""
}

func namedOf(t types.Type) *types.Named {
	if p, ok := t.(*types.Pointer); ok {
		t = p.Elem()
	}
	n, _ := t.(*types.Named)
	return n
}

var noopPkgs = []string{
	"go.temporal.io/server/common/log",
	"github.com/prometheus/client_golang",
	"github.com/temporalio/s2s-proxy/metrics",
	"github.com/temporalio/s2s-proxy/logging",
	"go.uber.org/zap",
	"github.com/grpc-ecosystem/go-grpc-middleware",
}

var noopFuncPrefixes = []string{
	"(*github.com/temporalio/s2s-proxy/proxy.StreamTracker).",
	"(*github.com/temporalio/s2s-proxy/proxy.proxyStreamReceiver).buildReceiverDebugSnapshot",
	"(*github.com/temporalio/s2s-proxy/proxy.proxyStreamSender).buildSenderDebugSnapshot",
	"github.com/temporalio/s2s-proxy/proxy.GetGlobalStreamTracker",
	"runtime/debug.Stack",
	"runtime/debug.PrintStack",
	"(*log.Logger).",
	"log.Print",
}

// noopResult fabricates the result of an observability call.
func (ex *Exec) noopResult(sig *types.Signature) Value {
	res := sig.Results()
	mk := func(t types.Type) Value {
		switch u := t.Underlying().(type) {
		case *types.Interface:
			return ifaceV{t: ex.eng.opaqueT, v: opaqueV{}}
		case *types.Pointer:
			z := ex.zero(u.Elem())
			return Ptr{slot: &z}
		case *types.Signature:
			return &closure{intr: "opaque-method", bound: []Value{sigBox{u}}}
		case *types.Basic:
			if u.Info()&types.IsString != 0 {
				return strV{opaque: true}
			}
		}
		return ex.zero(t)
	}
	switch res.Len() {
	case 0:
		return nil
	case 1:
		return mk(res.At(0).Type())
	}
	tv := make(tupleV, res.Len())
	for i := range tv {
		tv[i] = mk(res.At(i).Type())
	}
	return tv
}
